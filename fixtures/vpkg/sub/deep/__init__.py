import sys as _s; getattr(_s, '_olverif_import_log', []).append(__name__); del _s
D = "deep"
