import sys as _s; getattr(_s, '_olverif_import_log', []).append(__name__); del _s
from . import sib as _sib
from ..leaf import V as _V
M = "sub.mod"
REL = (_sib.SIB, _V)
