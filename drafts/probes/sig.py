import sys, itertools, collections, inspect, random
sys.path.insert(0,'/repo')
import oneliner
from oneliner.config import Configs
def shapes():
    for p in range(3):
        for a in range(3):
            for d in range(p+a+1):
                for var in (0,1):
                    for k in range(3):
                        for kd in itertools.product((0,1), repeat=k):
                            for kw in (0,1):
                                yield p,a,d,var,k,kd,kw
def render(p,a,d,var,k,kd,kw, ann):
    names=[]; parts=[]
    pos=[f"p{i}" for i in range(p)]+[f"a{i}" for i in range(a)]
    ndef=d
    for i,n in enumerate(pos):
        s=n + (": int" if ann else "")
        if i>=len(pos)-ndef: s+=f"={100+i}" if not ann else f" = {100+i}"
        parts.append(s)
        if i==p-1: parts.append("/")
    if var: parts.append("*va")
    elif k: parts.append("*")
    for i in range(k):
        s=f"k{i}" + (": str" if ann else "")
        if kd[i]: s+=f"={200+i}"
        parts.append(s)
    if kw: parts.append("**kw")
    allnames=pos+(["va"] if var else [])+[f"k{i}" for i in range(k)]+(["kw"] if kw else [])
    body="(" + ",".join(allnames) + ("," if allnames else "") + ")"
    return f"def f({', '.join(parts)}){' -> int' if ann else ''}:\n    return {body}\n", pos, [f"k{i}" for i in range(k)]
def calls(pos, kws):
    out=[]
    for n in range(len(pos)+2):
        out.append((tuple(range(n)), {}))
        out.append((tuple(range(n)), {k:9 for k in kws}))
    for nm in pos+kws+['zz']:
        out.append(((), {nm:7}))
        out.append(((1,), {nm:7}))
        out.append((tuple(range(len(pos))), {nm:7}))
    out.append(((), {n:5 for n in pos+kws}))
    return out
def attempt(f, c):
    try: return ('ok', f(*c[0], **c[1]))
    except TypeError as e: return ('TypeError',)
cfgs=[]
for u in ("ast.unparse","oneliner"):
    for w in ("list","chain_call"):
        c=Configs(); c.unparser=u; c.expr_wrapper=w; cfgs.append(c)
n=0; bad=0
for sh in shapes():
    for ann in (0,1):
        src,pos,kws=render(*sh, ann)
        g={}; exec(src,g); f=g['f']
        cs=calls(pos,kws)
        ref=[attempt(f,c) for c in cs]
        sigref=str(inspect.signature(f)) if not ann else None
        for c in cfgs:
            t=oneliner.convert_code_string(src,configs=c)
            g2={}; eval(t,g2); f2=g2['f']
            got=[attempt(f2,cc) for cc in cs]
            n+=1
            if got!=ref or (sigref and str(inspect.signature(f2))!=sigref):
                bad+=1
                if bad<5: print("BAD", src, t, [ (a,b,c) for a,b,c in zip(cs,ref,got) if b!=c][:3], sigref, str(inspect.signature(f2)))
print(n,bad)
