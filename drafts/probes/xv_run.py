import sys, json, io, contextlib
cases=json.load(open(sys.argv[1]))
def run(code, mode):
    buf=io.StringIO(); g={'__name__':'__main__'}
    try:
        with contextlib.redirect_stdout(buf):
            exec(compile(code,'s','exec'),g) if mode=='exec' else eval(compile(code,'o','eval'),g)
        return buf.getvalue(), None
    except BaseException as e: return buf.getvalue(), type(e).__name__+': '+str(e)[:80]
ref={}
bad=0
for c in cases:
    if c['file'] not in ref: ref[c['file']]=run(c['src'],'exec')
    if c['text'] is None: print('noconv', c['file'], c['cfg']); continue
    got=run(c['text'],'eval')
    if got!=ref[c['file']]:
        bad+=1
        if bad<=6: print(sys.version_info[:2], 'DIFF', c['file'], c['cfg'], ref[c['file']][1], '|', got[1])
print(sys.version_info[:2], 'cases', len(cases), 'bad', bad)
