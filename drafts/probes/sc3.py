import sys, collections, random, os
import sc
def has(root, pred):
    def w(s, path):
        if pred(s, path): return True
        return any(w(c, path+[s]) for c in s['children'])
    return w(root, [])
def known(root):
    if has(root, lambda s,p: s['kind']=='lambda' and s['role'] in('walrus',)): return 'lambda-walrus'
    if has(root, lambda s,p: s['kind']=='class' and s['role'] in ('assign_read_before','aug')): return 'class-load-then-store'
    return None
def main(seed,n,maxdepth):
    rng=random.Random(seed)
    from oneliner.config import Configs
    import oneliner
    c=Configs(); c.unparser='oneliner'; c.expr_wrapper='list'
    st=collections.Counter(); fails=[]
    for _ in range(n):
        src,root=sc.gen(rng,maxdepth)
        k=known(root)
        if k: st['skip-'+k]+=1; continue
        try: co=compile(src,'<s>','exec')
        except SyntaxError as e: st['syntax']+=1; continue
        olog,oerr,ox=sc.run(co,'exec')
        if oerr: st['orig-exc']+=1; continue
        st['valid']+=1
        try:
            t=oneliner.convert_code_string(src,configs=c); cc=compile(t,'<o>','eval')
        except BaseException as e:
            fails.append((src,sc.sig(root),'convert:'+repr(e)[:80])); st['fail']+=1; continue
        clog,cerr,cx=sc.run(cc,'eval')
        if clog!=olog or cerr or cx!=ox:
            fails.append((src,sc.sig(root),cerr or 'logdiff')); st['fail']+=1
    print(st)
    fails.sort(key=lambda f: len(f[0]))
    seen=collections.Counter()
    for src,sg,e in fails:
        key=(e[:25], tuple(sorted(set((k,r) for d,k,r in sg)))[:3])
        seen[e[:25]]+=1
        if seen[e[:25]]<=6:
            print("=====",e, sg); print(src)
    print(seen)
main(int(sys.argv[1]), int(sys.argv[2]), int(sys.argv[3]))
