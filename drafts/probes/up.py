import sys, ast, os, collections, warnings
sys.path.insert(0, __import__('os').environ.get('OL_REPO','/repo'))
warnings.simplefilter('ignore')
from oneliner.expr_unparse import expr_unparse
def norm(n):
    return ast.dump(n, annotate_fields=True, include_attributes=False)
stdlib = os.path.dirname(os.__file__)
fails = collections.Counter(); ex = {}
n=0; files=0
for root, ds, fs in os.walk(stdlib):
    if 'site-packages' in root or 'test' in root.split(os.sep)[-1:] : continue
    for f in fs:
        if not f.endswith('.py'): continue
        try:
            src=open(os.path.join(root,f),encoding='utf8').read()
            tree=ast.parse(src)
        except Exception: continue
        files+=1
        # top-level expression nodes: those whose parent is not an expr
        for node in ast.walk(tree):
            for child in ast.iter_child_nodes(node):
                if isinstance(child, ast.expr) and not isinstance(node, (ast.expr, ast.comprehension, ast.keyword, ast.arguments)) :
                    if isinstance(child.ctx if hasattr(child,'ctx') else None, (ast.Store, ast.Del)): continue
                    if isinstance(child, (ast.Starred,)): continue
                    n+=1
                    try:
                        t=expr_unparse(child)
                    except Exception as e:
                        k=('unparse-raise', type(e).__name__, str(e)[:40]); fails[k]+=1; ex.setdefault(k, ast.unparse(child)[:150]); continue
                    if '\n' in t or '\r' in t:
                        k=('newline',); fails[k]+=1; ex.setdefault(k,(ast.unparse(child)[:100], t[:100]))
                    try:
                        back=ast.parse(t, mode='eval').body
                    except Exception as e:
                        k=('reparse-fail', type(e).__name__, str(e)[:50], type(child).__name__); fails[k]+=1; ex.setdefault(k,(ast.unparse(child)[:150], t[:150])); continue
                    if norm(back)!=norm(child):
                        # find first differing node type
                        k=('mismatch', type(child).__name__); fails[k]+=1; ex.setdefault(k,(ast.unparse(child)[:200], t[:200]))
print(files, n)
for k,v in fails.most_common(): print(v, k, ex[k])
