from p import probe
import sys
print("#### host", sys.version_info[:2])
probe("def f():\n    y=1\n    r=[y+i for i in range(2)]\n    z=[(w:=i) for i in range(3)]\n    return r,z,w\nprint(f())")
probe("class A:\n    x=[1,2]\n    y=[e*2 for e in x]\n    z=[len(str(e)) for e in x]\nprint(A.y,A.z)")
probe("def f():\n    y=1\n    def g():\n        return [y for _ in range(2)]\n    return g()\nprint(f())")
probe("x=[(q:=i) for i in range(3)]\nprint(x,q)")
probe("def f(n):\n    return [[i*j for j in range(n)] for i in range(n)]\nprint(f(2))")
probe("def f():\n    a=1\n    def g():\n        nonlocal a\n        a=[a for a in range(2)]\n    g()\n    return a\nprint(f())")
probe("class A:\n    f=lambda self: 3\nprint(A().f())")
probe("g=5\nclass A:\n    f=[g for _ in range(1)]\nprint(A.f)")
probe("def listcomp():\n    return [i for i in range(2)]\nprint(listcomp())")
probe("print(f'{1+1}\\n{2!r}')")
