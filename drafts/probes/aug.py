import sys, os, itertools, collections
sys.path.insert(0, os.environ.get('OL_REPO','/repo'))
import oneliner
from oneliner.config import Configs
OPS=['+','-','*','/','//','%','**','<<','>>','&','|','^','@']
PRE='''
class S:
    def __init__(s, v): s.v = v
    def __repr__(s): return 'S' + repr(s.v)
%s
class B:
    def __init__(s, v): s.v = v
    def __repr__(s): return 'B' + repr(s.v)
%s
class N:
    def __init__(s, v): s.v = v
    def __repr__(s): return 'N' + repr(s.v)
%s
class R:
    def __repr__(s): return 'R()'
%s
class O: pass
'''
DUN={'+':'add','-':'sub','*':'mul','/':'truediv','//':'floordiv','%':'mod','**':'pow','<<':'lshift','>>':'rshift','&':'and','|':'or','^':'xor','@':'matmul'}
def pre():
    s_m="".join(f"    def __i{d}__(s, o): s.v = ('i{d}', s.v, o); return s\n" for d in DUN.values())
    b_m="".join(f"    def __{d}__(s, o): return B(('{d}', s.v, o))\n" for d in DUN.values())
    n_m="".join(f"    def __i{d}__(s, o): return N(('new{d}', s.v, o))\n" for d in DUN.values())
    r_m="".join(f"    def __r{d}__(s, o): return ('r{d}', o)\n" for d in DUN.values())
    return PRE % (s_m,b_m,n_m,r_m)
OPERANDS={'int':('7','3'),'float':('7.5','2.0'),'str':("'ab'","'c'"),'strmul':("'ab'",'2'),'list':('[1,2]','[3]'),'listmul':('[1]','2'),'tuple':('(1,)','(2,)'),'set':('{1,2}','{2,3}'),'dict':("{'a':1}","{'b':2}"),
 'S':('S(1)','5'),'B':('B(1)','5'),'N':('N(1)','5'),'R':('3','R()'),'bool':('True','False')}
TARGETS={'name':("x = %s\nal = x\n", "x %s= %s\n", "print(repr(x), repr(al), x is al)"),
 'attr':("o = O()\no.a = %s\nal = o.a\n", "o.a %s= %s\n", "print(repr(o.a), repr(al), o.a is al)"),
 'sub':("d = {'k': %s}\nal = d['k']\n", "d['k'] %s= %s\n", "print(repr(d['k']), repr(al), d['k'] is al)"),
 'slice':("l = [0, %s, 9]\nal = l\n", "l[1:2] %s= %s\n", "print(repr(l))"),
}
def place(body, where):
    if where=='global': return body
    ind="\n".join("    "+l for l in body.split("\n"))
    if where=='local': return "def f():\n"+ind+"\nf()"
    if where=='class': return "class K:\n"+ind
    if where=='nonlocal':
        # x assigned in outer, aug in inner
        return None
import io, contextlib
def run(code, mode):
    buf=io.StringIO(); g={'__name__':'__main__'}
    try:
        with contextlib.redirect_stdout(buf):
            exec(code,g) if mode=='exec' else eval(code,g)
        return buf.getvalue(), None
    except BaseException as e: return buf.getvalue(), type(e).__name__
cfgs=[]
for u,w in (("ast.unparse","chain_call"),("oneliner","list")):
    c=Configs(); c.unparser=u; c.expr_wrapper=w; cfgs.append(c)
P=pre()
st=collections.Counter(); bad=collections.Counter(); ex={}
for op in OPS:
    for tn,(a,b) in OPERANDS.items():
        for tk,(init,stmt,show) in TARGETS.items():
            for where in ('global','local','class'):
                if tk=='slice':
                    a2='[%s]'%a if False else a
                body=init % a + stmt % (op, ('[%s]'%b if tk=='slice' and tn not in('list',) else b)) + show
                src=P+place(body, where)
                try: co=compile(src,'s','exec')
                except SyntaxError: st['syntax']+=1; continue
                ref=run(co,'exec')
                if ref[1]: st['orig-exc']+=1; continue
                st['valid']+=1
                for c in cfgs:
                    try:
                        t=oneliner.convert_code_string(src,configs=c); got=run(compile(t,'o','eval'),'eval')
                    except Exception as e: got=('CONV',repr(e)[:60])
                    if got!=ref:
                        bad[(tn,tk)]+=1; ex.setdefault((tn,tk),(op,where,ref,got)); break
print(st)
for k,v in bad.items(): print(v,k,ex[k])
