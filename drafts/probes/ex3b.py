import sys, collections, time, ast
import ex3
from ex3 import SLOTS, KINDS, check
# mask known: fs_spec / fs_conv
for k in ('fs_spec','fs_conv'):
    SLOTS.pop(k); KINDS.pop('k_'+k)
st=collections.Counter(); ex={}
t0=time.time()
for sk,s in SLOTS.items():
    for ck,c in KINDS.items():
        check(s.format("("+c+")"), st, ex, f"{sk}<{ck}")
print('depth2', st, time.time()-t0)
for k,v in ex.items():
    if isinstance(k,tuple): print(k,v)
if len(sys.argv)>1:
    ex2={}
    for sk,s in SLOTS.items():
        for mk,m in SLOTS.items():
            for ck,c in KINDS.items():
                check(s.format("("+m.format("("+c+")")+")"), st, ex2, f"{sk}<{mk}<{ck}")
    print('depth3', st, time.time()-t0)
    n=0
    for k,v in ex2.items():
        if isinstance(k,tuple):
            n+=1
            if n<60: print(k,v)
    print(n)
