import sys; sys.path.insert(0,'/repo')
import oneliner
from oneliner.config import Configs
def cfgs():
    for u in ["ast.unparse","oneliner"]:
        for w in ["list","chain_call"]:
            c = Configs(); c.unparser=u; c.expr_wrapper=w; c.if_style="if_expr"
            yield (u,w), c
def attempt(src, c):
    try:
        t = oneliner.convert_code_string(src, configs=c)
    except RecursionError as e:
        return "convert:RecursionError"
    except Exception as e:
        return f"convert:{type(e).__name__}"
    try:
        co = compile(t, "<o>", "eval")
    except RecursionError: return "compile:RecursionError"
    except MemoryError: return "compile:MemoryError"
    except Exception as e: return f"compile:{type(e).__name__}:{str(e)[:60]}"
    try:
        g={}
        eval(co, g)
    except RecursionError: return "eval:RecursionError"
    except Exception as e: return f"eval:{type(e).__name__}:{str(e)[:60]}"
    return "ok"
fams = {
 "stmts": lambda n: "x=0\n" + "x+=1\n"*n,
 "stmts_assign": lambda n: "\n".join(f"x{i}={i}" for i in range(n)),
 "elif": lambda n: "x=-1\nif x==0: y=0\n" + "".join(f"elif x=={i}: y={i}\n" for i in range(1,n)) ,
 "binop": lambda n: "x=" + "+".join(["1"]*n),
 "calls": lambda n: "f=lambda *a: f\nx=f" + "()"*n,
 "attrs": lambda n: "class A: pass\na=A(); a.a=a\nx=a" + ".a"*n,
 "nest_if": lambda n: "x=1\n" + "".join(" "*i + "if x:\n" for i in range(n)) + " "*n + "y=1\n",
 "nest_for": lambda n: "".join(" "*i + f"for i{i} in [1]:\n" for i in range(n)) + " "*n + "y=1\n",
 "funcs": lambda n: "".join(f"def f{i}(): return {i}\n" for i in range(n)),
}
for name, fam in fams.items():
    for n in [10, 50, 90, 99, 200, 400, 800, 1600, 3200]:
        src = fam(n)
        try:
            compile(src, "<s>", "exec")
        except Exception as e:
            print(name, n, "orig-refused", type(e).__name__, str(e)[:50]); break
        row = {k: attempt(src, c) for k,c in cfgs()}
        print(name, n, row)
