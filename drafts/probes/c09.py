import sys, os, io, contextlib, collections
sys.path.insert(0, os.environ.get('OL_REPO','/repo'))
import oneliner
from oneliner.config import Configs
IDS=['_','__','k','v','self','it','itertools','importlib','type','setattr','hasattr','globals','locals','iter','next','tuple','list','slice','classmethod','__import__','super','getattr','print','___','_k','ol_x','__olx']
# feature snippets; {N} is the risky identifier bound as a global int 41 before (role: global) ; features don't mention N
FEATS={
 'while':"c0=0\nwhile c0<2:\n    c0+=1\n",
 'while_break':"c0=0\nwhile True:\n    c0+=1\n    if c0>2: break\nelse:\n    c0=-1\n",
 'for':"for e0 in [1,2]:\n    c0=e0\n",
 'for_break':"for e0 in [1,2,3]:\n    if e0==2: break\nelse:\n    e0=-1\n",
 'class':"class K0:\n    a0=1\n    def m0(s0): return s0.a0\nc0=K0().m0()\n",
 'class_isc':"class B0:\n    def __init_subclass__(c0, **kw0): c0.t0=1\nclass K0(B0): pass\nc0=K0.t0\n",
 'class_super':"class B0:\n    def m0(s0): return 1\nclass K0(B0):\n    def m0(s0): return super().m0()+1\nc0=K0().m0()\n",
 'import':"import math\nc0=math.floor(1.5)\n",
 'import_dotted':"import os.path as p0\nc0=p0.basename('a/b')\n",
 'from_import':"from math import floor as f0\nc0=f0(2.5)\n",
 'destructure':"a0,(b0,*r0)=1,(2,3,4)\nc0=[a0,b0,r0]\n",
 'aug_sub':"d0={'q':1}\nd0['q']+=1\nl0=[1,2,3]\nl0[0:1]+=[9]\nc0=(d0,l0)\n",
 'aug_attr':"class O0: pass\no0=O0()\no0.a=1\no0.a+=1\nc0=o0.a\n",
 'aug_name':"x0=[1]\ny0=x0\nx0+=[2]\nc0=(x0,y0)\n",
 'slice_assign':"l0=[1,2,3]\nl0[1:]=[7]\nc0=l0\n",
 'attr_assign':"class O0: pass\no0=O0()\no0.a=5\nc0=o0.a\n",
 'global_store':"def f0():\n    global g0\n    g0=3\nf0()\nc0=g0\n",
 'func_in_func_nonlocal':"def f0():\n    n0=0\n    def h0():\n        nonlocal n0\n        n0+=1\n    h0()\n    return n0\nc0=f0()\n",
 'if':"c0=1\nif c0:\n    c0=2\nelse:\n    c0=3\n",
 'func_return':"def f0(a0):\n    for e0 in [1,2]:\n        if e0==a0: return e0\n    return 0\nc0=f0(2)\n",
}
ROLES={
 'global':"{N}=41\n{F}print({N}, c0)\n",
 'local':"def R0():\n    {N}=41\n{FI}    return {N}, c0\nprint(R0())\n",
 'param':"def R0({N}):\n{FI}    return {N}, c0\nprint(R0(41))\n",
 'looptarget':"for {N} in [40,41]:\n    pass\n{F}print({N}, c0)\n",
 'funcname':"def {N}(): return 41\n{F}print({N}(), c0)\n",
 'classname':"class {N}:\n    z0=41\n{F}print({N}.z0, c0)\n",
 'classattr':"class Q0:\n    {N}=41\n{F}print(Q0.{N}, c0)\n",
 'importalias':"import string as {N}\n{F}print({N}.digits, c0)\n",
}
def run(code, mode):
    buf=io.StringIO(); g={'__name__':'__main__'}
    try:
        with contextlib.redirect_stdout(buf):
            exec(code,g) if mode=='exec' else eval(code,g)
        return buf.getvalue(), None
    except BaseException as e: return buf.getvalue(), type(e).__name__
cfgs=[]
for u,w in (("ast.unparse","chain_call"),("oneliner","list")):
    c=Configs(); c.unparser=u; c.expr_wrapper=w; cfgs.append(c)
st=collections.Counter(); bad=collections.defaultdict(set)
for N in IDS:
  for rk,rt in ROLES.items():
    for fk,f in FEATS.items():
        if rk in('local','param') and ('global' in f or fk in('global_store',)): pass
        FI="".join("    "+l+"\n" for l in f.splitlines())
        src=rt.replace('{N}',N).replace('{FI}',FI).replace('{F}',f)
        try: co=compile(src,'s','exec')
        except SyntaxError: st['syntax']+=1; continue
        ref=run(co,'exec')
        if ref[1]: st['orig-exc']+=1; continue
        st['valid']+=1
        for c in cfgs:
            try:
                t=oneliner.convert_code_string(src,configs=c); got=run(compile(t,'o','eval'),'eval')
            except Exception as e: got=('CONV',type(e).__name__)
            if got!=ref:
                st['fail']+=1; bad[N].add((rk,fk)); break
print(st)
for N,cells in bad.items():
    byf=collections.defaultdict(list)
    for rk,fk in sorted(cells): byf[fk].append(rk)
    print(N, len(cells), {f: (r if len(r)<8 else 'ALL') for f,r in byf.items()})
