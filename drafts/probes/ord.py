import sys, os, io, contextlib, collections
sys.path.insert(0, os.environ.get('OL_REPO','/repo'))
import oneliner
from oneliner.config import Configs
PRE='''
def P(n, v=None):
    print('P', n)
    return v
class O:
    def __init__(s): object.__setattr__(s, 'd', {})
    def __getitem__(s,k): print('get',k); return s.d.get(repr(k),0)
    def __setitem__(s,k,v): print('set',k,v); s.d[repr(k)]=v
    def __getattr__(s,k):
        print('getattr',k); return 0
    def __setattr__(s,k,v): print('setattr',k,v); object.__setattr__(s,k,v)
o=O(); o2=O()
class Bs: pass
class Mt(type): pass
def deco(n):
    print('mkdeco', n)
    def d(f):
        print('apply', n); return f
    return d
'''
T=[
 "x = P(1, 5)", "P(1,o).a = P(2,5)", "P(1,o)[P(2,'k')] = P(3,5)", "P(1,o)[P(2,1):P(3,2)] = P(4,[5])", "P(1,o)[P(2,1):P(3,2):P(4,1)] = P(5,[5])",
 "x, P(1,o).a = P(2,(1,2))", "P(1,o).a, P(2,o2)[P(3,'k')] = P(4,(1,2))", "[P(1,o).a, *P(2,o2).b] = P(3,(1,2,3))", "(x, (P(1,o).a, y)) = P(2,(1,(2,3)))",
 "x = P(1,o).a = P(2,5)", "P(1,o).a = P(2,o2)[P(3,'k')] = P(4,5)", "x = y = z = P(1,[])",
 "x = 1\nx += P(1,2)", "P(1,o).a += P(2,5)", "P(1,o)[P(2,'k')] += P(3,5)", "P(1,o)[P(2,1):P(3,2)] += P(4,[5])", "P(1,o)[P(2,'k')] **= P(3,2)",
 "@P(1,deco('a'))\n@P(2,deco('b'))\ndef f(a=P(3), b=P(4), *, c=P(5), d=P(6)): pass", "def f(a=P(1)):\n    return a\nf(); f()",
 "class A(P(1,Bs), P(2,object), k=P(3,1)) if False else P(0): pass" if False else "class A(P(1,Bs)): pass",
 "class A(P(1,Bs), metaclass=P(2,Mt)): pass", "class A(metaclass=P(1,Mt)): pass", "@P(1,deco('a'))\n@P(2,deco('b'))\nclass A(P(3,Bs)):\n    P(4)",
 "class Q:\n    def __init_subclass__(cls, **kw): print('isc', sorted(kw))\nclass A(P(1,Q), a=P(2,1), b=P(3,2)): pass",
 "if P(1,0):\n    P(2)\nelif P(3,1):\n    P(4)\nelse:\n    P(5)", "n=[0]\nwhile P(1, n[0] < 2):\n    n[0] += 1\n    P(2)", "for z in P(1,[1,2]):\n    P(2,z)", "for P(1,o).a in P(2,[1,2]):\n    P(3)",
 "for P(1,o)[P(2,'k')] in P(3,[1,2]):\n    P(4)", "for x, P(1,o).a in P(2,[(1,2)]):\n    P(3)",
 "def f():\n    return P(1,1)\nf()", "P(1,print)(P(2,1), *P(3,[2]), k=P(4,3), **P(5,{}))" if False else "P(1,max)(P(2,1), *P(3,[2]), key=P(4,None))",
 "P(1,1) < P(2,2) < P(3,3)", "P(1,0) and P(2,1) or P(3,2)", "P(1,1) if P(2,0) else P(3,3)", "(w := P(1,1)) + P(2,w)", "[P(1,i) for i in P(2,[1,2]) if P(3,i)]", "{P(1,'a'): P(2,1), **P(3,{})}",
 "f'{P(1,1)}{P(2,2)!r:{P(3,3)}}'", "lambda a=P(1): a", "(lambda a=P(1), *, b=P(2): P(3))()",
 "import math as m\nP(1)", "x = P(1,o)[P(2,'k')]", "x = P(1,o).a", "print(P(1,1), P(2,2), sep=P(3,''))",
 "x: int = P(1,1)", "x = [P(1), P(2)][P(3,0)]",
]
def place(body, where):
    if where=='global': return body
    ind="\n".join("    "+l for l in body.split("\n"))
    if where=='local': return "def FF():\n"+ind+"\nFF()"
    if where=='class': return "class KK:\n"+ind
def run(code, mode):
    buf=io.StringIO(); g={'__name__':'__main__'}
    try:
        with contextlib.redirect_stdout(buf):
            exec(code,g) if mode=='exec' else eval(code,g)
        return buf.getvalue(), None
    except BaseException as e: return buf.getvalue(), type(e).__name__+':'+str(e)[:40]
cfgs=[]
for u in ("ast.unparse","oneliner"):
  for w in ("chain_call","list"):
    for i in ("if_expr","short_circuit"):
        c=Configs(); c.unparser=u; c.expr_wrapper=w; c.if_style=i; cfgs.append(c)
st=collections.Counter()
for t in T:
    for where in ('global','local','class'):
        if where=='class' and ('return' in t and 'def' not in t): continue
        src=PRE+place(t,where)
        try: co=compile(src,'s','exec')
        except SyntaxError as e: st['syntax']+=1; print('SYNTAX', t, e); continue
        ref=run(co,'exec')
        if ref[1]: st['orig-exc']+=1; print('ORIGEXC', where, repr(t), ref[1]); continue
        st['valid']+=1
        fails=set()
        for c in cfgs:
            try:
                t2=oneliner.convert_code_string(src,configs=c); got=run(compile(t2,'o','eval'),'eval')
            except Exception as e: got=('CONV',repr(e)[:60])
            if got!=ref: fails.add((got[1] or 'order'))
        if fails:
            st['fail']+=1; print('FAIL', where, repr(t)[:90], fails)
print(st)
