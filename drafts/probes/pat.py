import sys, itertools, collections
sys.path.insert(0,'/repo')
import oneliner
from oneliner.config import Configs
# patterns: trees; leaf kinds: name / attr / sub / slice
cnt=[0]
def leaves():
    cnt[0]+=1; i=cnt[0]
    return [f"n{i}", f"o.a{i}", f"d[{i}]", f"l{i}[1:2]", f"l{i}[:]", f"l{i}[::2]"]
def patterns(depth, arity):
    # returns list of (text, minlen_shape) shape = nested structure: ('leaf',) or ('seq', [children], star_idx)
    out=[]
    for n in range(1, arity+1):
        for star in [None]+list(range(n)):
            kidsets=[]
            for pos in range(n):
                opts=[('leaf',)]
                if depth>1: opts+= [('sub',n2,s2) for n2 in (1,2) for s2 in [None]+list(range(n2))]
                kidsets.append(opts)
            for combo in itertools.product(*kidsets):
                out.append((n,star,combo))
    return out
def build(n,star,combo, lk, brack):
    parts=[]; shape=[]
    for i,c in enumerate(combo):
        if c[0]=='leaf':
            cnt[0]+=1; j=cnt[0]
            leaf={0:f"n{j}",1:f"o.a{j}",2:f"d[{j}]",3:f"l[{j%3}:{j%3+1}]"}[lk(j)]
            t=leaf; sh=('leaf',)
        else:
            _,n2,s2=c
            sub=[]; 
            for q in range(n2):
                cnt[0]+=1; j=cnt[0]
                leaf={0:f"n{j}",1:f"o.a{j}",2:f"d[{j}]",3:f"l[{j%3}:{j%3+1}]"}[lk(j)]
                sub.append(("*" if s2==q else "")+leaf)
            t="("+",".join(sub)+("," if n2==1 else "")+")" if not brack else "["+",".join(sub)+"]"
            sh=('seq',n2,s2)
        parts.append(("*" if star==i else "")+t); shape.append(sh)
    txt=",".join(parts)+("," if n==1 else "")
    return txt, shape
def value(n,star,shape,extra,kind):
    # build a source expression producing proper lengths
    items=[]
    total=n-(1 if star is not None else 0)+ (extra if star is not None else 0)
    for i in range(total):
        # map to shape index
        if star is None: si=i
        else:
            if i<star: si=i
            elif i>=total-(n-star-1): si=n-(total-i)
            else: si=star
        sh=shape[si] if not (star is not None and si==star) else ('leaf',)
        if star is not None and si==star: sh=shape[si]
        if sh[0]=='leaf' or (star is not None and si==star and sh[0]=='leaf'):
            if shape[si][0]=='leaf' and 'l[' in '': pass
            items.append(f"[{i}0]" )
        else:
            _,n2,s2=sh
            m=n2-(1 if s2 is not None else 0)+(1 if s2 is not None else 0)
            items.append("["+",".join(f"[{i}{q}]" for q in range(m))+"]")
    inner=",".join(items)
    if kind=='list': return "["+inner+"]"
    if kind=='tuple': return "("+inner+("," if total==1 else "")+")"
    if kind=='gen': return "(e for e in ["+inner+"])"
    if kind=='iter': return "iter(["+inner+"])"
PRE="class O: pass\no=O()\nd={}\nl=[0,0,0,0]\n"
cfgs=[]
for u,w in (("ast.unparse","chain_call"),("oneliner","list")):
    c=Configs(); c.unparser=u; c.expr_wrapper=w; cfgs.append(c)
def run(code,mode):
    g={}
    try:
        if mode=='exec': exec(code,g)
        else: eval(code,g)
    except Exception as e: return ('EXC',type(e).__name__)
    r={k:v for k,v in g.items() if k.startswith('n')}
    return (r, vars(g['o']), g['d'], g['l'])
import random
rng=random.Random(1)
n=0;bad=0;skipped=0
for (nn,star,combo) in patterns(2,3):
    if star is not None and combo[star][0]!='leaf' and False: continue
    for lkmode in range(3):
        lk=(lambda j: 0) if lkmode==0 else (lambda j: j%4) if lkmode==1 else (lambda j: (j*7+1)%4)
        for brack in (0,1):
            cnt[0]=0
            txt,shape=build(nn,star,combo,lk,brack)
            for extra in (0,1,3):
                for kind in ('list','tuple','gen','iter'):
                    if star is None and extra: continue
                    src=PRE+f"{txt} = {value(nn,star,shape,extra,kind)}\n"
                    try: co=compile(src,'s','exec')
                    except SyntaxError: skipped+=1; continue
                    ref=run(co,'exec')
                    if ref[0]=='EXC': skipped+=1; continue
                    for c in cfgs:
                        n+=1
                        try:
                            t=oneliner.convert_code_string(src,configs=c); got=run(compile(t,'o','eval'),'eval')
                        except Exception as e: got=('CONV',repr(e)[:80])
                        if got!=ref:
                            bad+=1
                            if bad<6: print("BAD",src.split('\n')[-2], ref, got)
print(n,bad,skipped)
