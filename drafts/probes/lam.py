from p import probe
import sys
print(sys.version_info[:2])
probe("class A:\n    x=1\n    f=lambda self: self.x\nprint(A().f())")
probe("g=5\nclass A:\n    f=lambda self: g\nprint(A().f())")
probe("class A:\n    x=1\n    f=lambda self, x=x: x\nprint(A().f())")
probe("def h():\n    g=5\n    class A:\n        f=lambda self: g\n    return A().f()\nprint(h())")
