import sys, ast, os, collections, warnings, time, symtable
sys.path.insert(0, __import__('os').environ.get('OL_REPO','/repo')); warnings.simplefilter('ignore')
import oneliner
from oneliner.config import Configs
UNSUP=(ast.Try, ast.Raise, ast.With, ast.Assert, ast.Delete, ast.AsyncFunctionDef, ast.AsyncFor, ast.AsyncWith, ast.Match) + tuple(getattr(ast,n) for n in ('TryStar','TypeAlias') if hasattr(ast,n))
class Strip(ast.NodeTransformer):
    def generic_visit(self, node):
        super().generic_visit(node)
        for f in ('body','orelse','finalbody'):
            b=getattr(node,f,None)
            if isinstance(b,list) and b and isinstance(b[0], ast.stmt) or (isinstance(b,list) and f=='body' and isinstance(node,(ast.Module,ast.FunctionDef,ast.ClassDef,ast.If,ast.For,ast.While))):
                nb=[]
                for s in b:
                    if isinstance(s,UNSUP): continue
                    if isinstance(s, ast.ImportFrom) and any(a.name=='*' for a in s.names): continue
                    nb.append(s)
                if not nb and f=='body': nb=[ast.Pass()]
                setattr(node,f,nb)
        return node
def has_yield(tree):
    return any(isinstance(n,(ast.Yield,ast.YieldFrom,ast.Await)) for n in ast.walk(tree))
stdlib=os.path.dirname(os.__file__)
c1=Configs(); c1.unparser='oneliner'; c1.expr_wrapper='list'
c2=Configs(); c2.unparser='ast.unparse'; c2.expr_wrapper='chain_call'
res=collections.Counter(); ex={}
t0=time.time(); nfiles=0
for root, ds, fs in os.walk(stdlib):
    if 'site-packages' in root or '/test' in root or 'idlelib' in root or 'lib2to3' in root: continue
    for f in sorted(fs):
        if not f.endswith('.py'): continue
        p=os.path.join(root,f)
        try:
            src=open(p,encoding='utf8').read(); tree=ast.parse(src)
        except Exception: continue
        tree=Strip().visit(tree); ast.fix_missing_locations(tree)
        try: src2=ast.unparse(tree); compile(src2,p,'exec')
        except Exception as e: res['strip-invalid']+=1; continue
        nfiles+=1
        for name,c in (('ol/list',c1),('au/chain',c2)):
            try:
                sys.setrecursionlimit(10000)
                t=oneliner.convert_code_string(src2, configs=c)
            except RecursionError as e:
                res[(name,'raise','RecursionError')]+=1; continue
            except BaseException as e:
                k=(name,'raise',type(e).__name__, str(e)[:50]); res[k]+=1; ex.setdefault(k,p); continue
            if '\n' in t or '\r' in t:
                res[(name,'NEWLINE')]+=1; ex.setdefault((name,'NEWLINE'),p)
            try:
                compile(t,'<o>','eval'); res[(name,'ok')]+=1
            except RecursionError: res[(name,'compile-recursion')]+=1
            except BaseException as e:
                k=(name,'NOT-EXPR',type(e).__name__, str(e)[:70]); res[k]+=1; ex.setdefault(k,p)
print(nfiles, time.time()-t0)
for k,v in sorted(res.items(), key=lambda kv:-kv[1]): print(v,k,ex.get(k,''))
