import sys, collections, random
import sc
def has(root, pred):
    def w(s, path):
        if pred(s, path): return True
        return any(w(c, path+[s]) for c in s['children'])
    return w(root, [])
def known(root):
    # for-target role
    if __import__('os').environ.get('MASKFOR','1')=='1' and has(root, lambda s,p: s['role']=='for'): return 'for'
    # lambda inside class (3.12 crash)
    if has(root, lambda s,p: s['kind']=='lambda' and any(q['kind']=='class' for q in p)): return 'lambda-in-class'
    if has(root, lambda s,p: s['kind']=='lambda' and s['role'] in('param','walrus')): return 'lambda-param/walrus'
    if has(root, lambda s,p: s['role']=='import' and s['kind']=='func' and s['children']): return 'import-captured'
    if has(root, lambda s,p: s['kind']=='class' and s['role'] in ('assign_read_before','aug')): return 'class-load-then-store'
    if has(root, lambda s,p: s['role']=='walrus' and s['kind'] in('class',)): return 'class-walrus'
    return None
def main(seed,n,maxdepth):
    rng=random.Random(seed)
    from oneliner.config import Configs
    import oneliner
    cs=[]
    for u,w in (("oneliner","list"),):
        c=Configs(); c.unparser=u; c.expr_wrapper=w; cs.append(c)
    st=collections.Counter(); fails=[]
    for _ in range(n):
        src,root=sc.gen(rng,maxdepth)
        k=known(root)
        if k: st['skip-'+k]+=1; continue
        try: co=compile(src,'<s>','exec')
        except SyntaxError as e: st['syntax']+=1; continue
        olog,oerr,ox=sc.run(co,'exec')
        if oerr: st['orig-exc']+=1; continue
        st['valid']+=1
        for c in cs:
            try:
                t=oneliner.convert_code_string(src,configs=c); cc=compile(t,'<o>','eval')
            except BaseException as e:
                fails.append((src,sc.sig(root),'convert:'+repr(e)[:80])); st['fail']+=1; break
            clog,cerr,cx=sc.run(cc,'eval')
            if clog!=olog or cerr or cx!=ox:
                fails.append((src,sc.sig(root),cerr or 'logdiff')); st['fail']+=1; break
    print(st)
    fails.sort(key=lambda f: len(f[0]))
    seen=collections.Counter()
    for src,sg,e in fails:
        key=e[:25]
        seen[key]+=1
        if seen[key]<=4:
            print("=====",e, sg); print(src)
    print(seen)
if __name__=="__main__": main(int(sys.argv[1]), int(sys.argv[2]), int(sys.argv[3]))
