print('import vpkg.other')
o = 'OTHER'
