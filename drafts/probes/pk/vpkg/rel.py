print('import vpkg.rel')
