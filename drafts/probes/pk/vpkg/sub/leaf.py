print('import vpkg.sub.leaf')
leafval = 'LEAF'
