print('import vpkg.sub')
val = 'SUBVAL'
