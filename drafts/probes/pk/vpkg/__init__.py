print('import vpkg')
top = 'TOP'
