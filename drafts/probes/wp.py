import sys, os, random, io, contextlib, collections
sys.path.insert(0, os.environ.get('OL_REPO','/repo'))
import oneliner
from oneliner.config import Configs

class Env:
    def __init__(s, parent=None, kind='module'):
        s.parent=parent; s.kind=kind
        s.ints=[]; s.lists=[]; s.dicts=[]; s.funcs={}; s.classes={}; s.objs={}
    def all_ints(s):
        e=s; out=[]
        while e:
            if e.kind!='class' or e is s: out+=e.ints
            e=e.parent
        return out
    def lookup(s, attr):
        e=s; out=[]
        while e:
            if e.kind!='class' or e is s:
                v=getattr(e,attr); out+= list(v.items()) if isinstance(v,dict) else list(v)
            e=e.parent
        return out

class G:
    def __init__(s, rng, feat):
        s.r=rng; s.n=0; s.feat=feat; s.tags=collections.Counter()
    def chain(s, env):
        out=[]; e=env.parent
        while e and e.parent: out.append(e); e=e.parent
        return out
    def fresh(s, p):
        s.n+=1; return f"{p}{s.n}"
    # ---------- expressions (int typed)
    def iexpr(s, env, d=0, allow_walrus=False):
        r=s.r; ints=env.all_ints(); lists=env.lookup('lists'); dicts=env.lookup('dicts'); funcs=env.lookup('funcs')
        opts=['lit','lit']
        if ints: opts+=['var']*3
        if d<3:
            opts+=['bin','bin','ifexp','cmp','bool']
            if lists: opts+=['len','idx']+(['sumcomp'] if env.kind!='class' else [])
            if dicts: opts+=['dget']
            if funcs: opts+=['call','call']
            if 'lambda' in s.feat and env.kind!='class': opts+=['lam']
            if 'fstr' in s.feat: opts+=['fstr']
            if 'comp' in s.feat and env.kind!='class': opts+=['comp2']
            if allow_walrus and ints and 'walrus' in s.feat and env.kind!='class': opts+=['walrus']
        c=r.choice(opts); s.tags['e_'+c]+=1
        if c=='lit': return str(r.randint(-3,9))
        if c=='var': return r.choice(ints)
        if c=='bin':
            op=r.choice(['+','-','*','//','%','&','|','^'])
            a=s.iexpr(env,d+1,allow_walrus); b=s.iexpr(env,d+1)
            if op in('//','%'): return f"({a} {op} {r.randint(1,5)})"
            if op=='*': return f"({a} * {r.randint(-2,3)})"
            return f"({a} {op} {b})"
        if c=='ifexp': return f"({s.iexpr(env,d+1)} if {s.iexpr(env,d+1)} else {s.iexpr(env,d+1)})"
        if c=='cmp': return f"int({s.iexpr(env,d+1)} {r.choice(['<','<=','==','!=','>'])} {s.iexpr(env,d+1)})"
        if c=='bool': return f"({s.iexpr(env,d+1)} {r.choice(['and','or'])} {s.iexpr(env,d+1)})"
        if c=='len': return f"len({r.choice(lists)})"
        if c=='idx':
            l=r.choice(lists); return f"{l}[{s.iexpr(env,d+1)} % len({l})]"
        if c=='sumcomp':
            l=r.choice(lists); v=s.fresh('e')
            return f"sum([{v} * 2 for {v} in {l} if {v} % 2 == {r.randint(0,1)}])"
        if c=='comp2':
            v=s.fresh('e'); w=s.fresh('e')
            return f"sum({{{v}: {w} for {v} in range(3) for {w} in range({v})}}.values())"
        if c=='dget':
            return f"{r.choice(dicts)}.get({r.choice(['\"a\"','\"b\"','\"zz\"'])}, {r.randint(0,3)})"
        if c=='call':
            name,(npos,hasdef,kwo)=r.choice(funcs)
            args=[s.iexpr(env,d+1) for _ in range(npos)]
            if kwo: args.append(f"{kwo}={s.iexpr(env,d+1)}")
            return f"{name}({', '.join(args)})"
        if c=='lam':
            q=s.fresh('q'); return f"(lambda {q}, z{q}=2: {q} * z{q} + {s.iexpr(env,d+1)})({s.iexpr(env,d+1)})"
        if c=='fstr':
            return f"len(f'{{{s.iexpr(env,d+1)}}}-{{{s.iexpr(env,d+1)}!r:>4}}')"
        if c=='walrus':
            return f"({r.choice(env.ints)} := {s.iexpr(env,d+1)})" if env.ints else '1'
    # ---------- statements
    def block(s, env, depth, in_loop, in_func, n=None):
        out=[]
        nested = depth>0 and n is None
        if nested:
            snap=(list(env.ints),list(env.lists),list(env.dicts),dict(env.funcs),dict(env.classes),dict(env.objs))
        for _ in range(n or s.r.randint(1,4)):
            st_=s.stmt(env, depth, in_loop, in_func)
            out+=st_
            if st_ and st_[-1].split()[0] in ('break','continue','return'): break
        if nested:
            env.ints,env.lists,env.dicts,env.funcs,env.classes,env.objs=snap
        return out
    def stmt(s, env, depth, in_loop, in_func):
        r=s.r
        opts=['assign']*3+['print']*2+['aug']
        if env.lookup('lists'): opts+=['lappend','lset','star']
        if env.lookup('dicts'): opts+=['dset']
        if len(env.ints)>=2: opts+=['swap','chain']
        if depth<3: opts+=['if','if','while','for','for']
        if depth<2 and env.kind!='class': opts+=['def']
        if depth<2 and 'class' in s.feat: opts+=['class']
        if env.lookup('objs'): opts+=['meth','attrset']
        if in_loop: opts+=['break','continue']
        if in_func: opts+=['return']
        if env.kind=='func' and env.parent and env.parent.kind=='func' and env.parent.ints and 'nonlocal' in s.feat: opts+=['nonlocal']
        if env.kind=='func' and 'global' in s.feat: opts+=['global']
        opts+=['newlist','newdict']
        c=r.choice(opts); s.tags['s_'+c]+=1
        I=lambda: s.iexpr(env, 0, allow_walrus=True)
        if c=='assign':
            v=r.choice(env.ints) if env.ints and r.random()<0.5 else s.fresh('v')
            line=f"{v} = {I()}"
            if v not in env.ints: env.ints.append(v)
            return [line]
        if c=='print':
            ints=env.all_ints()
            items=[I()]+([r.choice(ints)] if ints else [])+[l for l in env.lookup('lists')[:1]]+[d for d in env.lookup('dicts')[:1]]
            return [f"print({s.n}, {', '.join(items)})"]
        if c=='aug':
            if not env.ints: return ["pass"]
            op=r.choice(['+=','-=','*=','//=','%=','&=','|=','^=','>>=','<<='])
            v=r.choice(env.ints)
            if op in('//=','%='): return [f"{v} {op} {r.randint(1,4)}"]
            if op in('>>=','<<='): return [f"{v} = {v} % 100", f"{v} {op} {r.randint(0,3)}"]
            if op=='*=': return [f"{v} {op} {r.randint(-2,2)}"]
            return [f"{v} {op} {I()}"]
        if c=='newlist':
            l=s.fresh('l'); line=f"{l} = [{', '.join(I() for _ in range(r.randint(1,4)))}]"; env.lists.append(l); return [line]
        if c=='newdict':
            d=s.fresh('d'); line=f"{d} = {{'a': {I()}, 'b': {I()}}}"; env.dicts.append(d); return [line]
        if c=='lappend':
            l=r.choice(env.lookup('lists'))
            if l in env.lists and env.kind!='class' or True: return [f"{l}.append({I()})"] if r.random()<0.5 or l not in env.lists else [f"{l} += [{I()}]"]
        if c=='lset':
            l=r.choice(env.lookup('lists')); return [f"{l}[{I()} % len({l})] {r.choice(['=','+=','-='])} {I()}"]
        if c=='dset':
            d=r.choice(env.lookup('dicts')); return [f"{d}[{r.choice(['\"a\"','\"b\"','\"c\"'])}] = {I()}"]
        if c=='star':
            l=r.choice(env.lookup('lists')); a=s.fresh('v'); b=s.fresh('l')
            env.ints.append(a); env.lists.append(b)
            return [f"{a}, *{b} = {l} + [0]", f"{b} = {b} or [1]"]
        if c=='swap':
            a,b=r.sample(env.ints,2); return [f"{a}, {b} = {b}, {a} + 1"]
        if c=='chain':
            a,b=r.sample(env.ints,2); return [f"{a} = {b} = {I()}"]
        if c=='if':
            out=[f"if {I()}:"]+ind(s.block(env,depth+1,in_loop,in_func))
            if r.random()<0.4: out+=[f"elif {I()}:"]+ind(s.block(env,depth+1,in_loop,in_func))
            if r.random()<0.5: out+=["else:"]+ind(s.block(env,depth+1,in_loop,in_func))
            return out
        if c=='while':
            w=s.fresh('w')
            out=[f"{w} = 0", f"while {w} < {r.randint(1,3)} and {s.iexpr(env,1)} < 50:"]+ind([f"{w} += 1"]+s.block(env,depth+1,True,in_func))
            if r.random()<0.3: out+=["else:"]+ind(s.block(env,depth+1,in_loop,in_func))
            return out
        if c=='for':
            kind=r.choice(['range','list','enum','items'])
            lists=env.lookup('lists'); dicts=env.lookup('dicts')
            if kind in('list','enum') and not lists: kind='range'
            if kind=='items' and not dicts: kind='range'
            i=s.fresh('i'); 
            if kind=='range': hdr=f"for {i} in range({r.randint(0,3)}):"; new=[i]
            elif kind=='list': hdr=f"for {i} in list({r.choice(lists)}):"; new=[i]
            elif kind=='enum': j=s.fresh('i'); hdr=f"for {i}, {j} in enumerate(list({r.choice(lists)})):"; new=[i,j]
            else: k=s.fresh('k'); hdr=f"for {k}, {i} in sorted({r.choice(dicts)}.items()):"; new=[i]
            if 'forvar_after' in s.feat:
                env.ints+=new  # loop vars visible after (guarded: loop may not run -> init before)
                pre=[f"{x} = -1" for x in new]
            else:
                pre=[]
            saved=list(env.ints)
            if 'forvar_after' not in s.feat: env.ints+=new
            body=s.block(env,depth+1,True,in_func)
            if 'forvar_after' not in s.feat:
                # names introduced inside stay; remove loop vars
                env.ints=[x for x in env.ints if x not in new]
            out=pre+[hdr]+ind(body)
            if r.random()<0.3: out+=["else:"]+ind(s.block(env,depth+1,in_loop,in_func))
            return out
        if c in('break','continue'): return [c]
        if c=='return': return [f"return {I()}"]
        if c=='def':
            name=s.fresh('f'); npos=r.randint(0,2); hasdef=r.random()<0.4; kwo=s.fresh('k') if r.random()<0.3 else None
            fenv=Env(env,'func')
            params=[s.fresh('p') for _ in range(npos)]
            fenv.ints+=params+([kwo] if kwo else [])
            ps=list(params)
            if hasdef and ps: ps[-1]=f"{ps[-1]}={s.iexpr(env,1)}"
            if kwo: ps+=['*', f"{kwo}={r.randint(0,3)}"]
            body=s.block(fenv,depth+1,False,True, n=r.randint(1,4))
            body.append(f"return {s.iexpr(fenv,0)}")
            env.funcs[name]=(npos,hasdef,kwo)
            return [f"def {name}({', '.join(ps)}):"]+ind(body)
        if c=='nonlocal':
            v=r.choice(env.parent.ints)
            if v in env.ints: return ['pass']
            env.ints.append(v)
            return [f"nonlocal {v}", f"{v} = {v} + 1"]
        if c=='global':
            root=env
            while root.parent: root=root.parent
            cands=[x for x in root.ints if x not in env.ints and not any(x in e.ints for e in s.chain(env))]
            if not cands or getattr(env,'has_stmt',False): return ['pass']
            g=r.choice(cands); env.ints.append(g)
            return [f"global {g}", f"{g} = {g} + 1"]
        if c=='class':
            name=s.fresh('C'); cenv=Env(env,'class')
            body=[]
            a=s.fresh('a'); body.append(f"{a} = {s.iexpr(env,1)}"); cenv.ints.append(a)
            body+=s.block(cenv,depth+1,False,False,n=r.randint(0,2))
            m=s.fresh('m'); menv=Env(cenv,'func'); menv.ints.append('arg')
            mbody=s.block(menv,depth+2,False,True,n=r.randint(1,2))+[f"self.acc = getattr(self, 'acc', 0) + arg", f"return self.acc + self.{a} + {s.iexpr(menv,1)}"]
            body+=[f"def {m}(self, arg=1):"]+ind(mbody)
            env.classes[name]=(a,m)
            o=s.fresh('o'); env.objs[o]=(name,a,m)
            return [f"class {name}:"]+ind(body)+[f"{o} = {name}()"]
        if c=='meth':
            o,(cn,a,m)=r.choice(env.lookup('objs')); return [f"print({s.n}, {o}.{m}({I()}), {o}.{a})"]
        if c=='attrset':
            o,(cn,a,m)=r.choice(env.lookup('objs')); return [f"{o}.{a} {r.choice(['=','+='])} {I()}"]
        return ['pass']
def ind(lines): return ["    "+l for l in lines]

import signal
class TO(BaseException): pass
def _alarm(*a): raise TO()
signal.signal(signal.SIGALRM, _alarm)
def run(code, mode):
    buf=io.StringIO(); g={'__name__':'__main__'}
    signal.alarm(5)
    try:
        with contextlib.redirect_stdout(buf):
            exec(code,g) if mode=='exec' else eval(code,g)
        err=None
    except BaseException as e: err=type(e).__name__+': '+str(e)[:60]
    finally: signal.alarm(0)
    gl={k:repr(v) for k,v in g.items() if isinstance(v,(int,list,dict,tuple,str)) and not k.startswith('__')}
    return buf.getvalue(), err, gl

def main(seed, n, feat):
    rng=random.Random(seed)
    cfgs=[]
    for u in ("ast.unparse","oneliner"):
      for w in ("chain_call","list"):
        for i in ("if_expr","short_circuit"):
            c=Configs(); c.unparser=u; c.expr_wrapper=w; c.if_style=i; cfgs.append(((u,w,i),c))
    st=collections.Counter(); fails=[]
    tags=collections.Counter()
    for case in range(n):
        g=G(rng, feat); env=Env()
        lines=g.block(env,0,False,False,n=rng.randint(4,10))
        lines.append("print('END', "+", ".join(env.ints[:6]+env.lists[:2]+env.dicts[:1])+")")
        src="\n".join(lines)
        try: co=compile(src,'s','exec')
        except SyntaxError as e: st['syntax']+=1; st['syn:'+str(e)[:40]]+=1; continue
        ref=run(co,'exec')
        if ref[1]: st['orig-exc']+=1; st['oe:'+ref[1][:30]]+=1; continue
        st['valid']+=1; tags.update(g.tags)
        for k,c in cfgs:
            try:
                random.seed(1); t=oneliner.convert_code_string(src,configs=c); cc=compile(t,'o','eval')
            except BaseException as e:
                fails.append((src,k,'CONV '+type(e).__name__+': '+str(e)[:70])); st['fail']+=1; break
            got=run(cc,'eval')
            gl={kk:v for kk,v in got[2].items() if not kk.startswith('__ol_')}
            if got[0]!=ref[0] or got[1]:
                fails.append((src,k,got[1] or 'stdout')); st['fail']+=1; break
            if 'forvar_after' in feat or True:
                refg=ref[2]
                if 'forvar_after' not in feat:
                    refg={kk:v for kk,v in refg.items() if not kk.startswith(('i','k'))}
                    gl={kk:v for kk,v in gl.items() if not kk.startswith(('i','k'))}
                if gl!=refg:
                    fails.append((src,k,'globals '+str(set(refg.items())^set(gl.items()))[:100])); st['fail']+=1; break
    print({k:v for k,v in st.items() if not k.startswith(('syn:','oe:'))}, {k:v for k,v in st.items() if k.startswith(('syn:','oe:'))})
    print(dict(tags.most_common(60)))
    fails.sort(key=lambda f: len(f[0]))
    seen=collections.Counter()
    for src,k,e in fails:
        key=e[:30]; seen[key]+=1
        if seen[key]<=3: print("=====",k,e); print(src)
    print(seen)
if __name__=='__main__':
    main(int(sys.argv[1]), int(sys.argv[2]), set(sys.argv[3].split(',')))
