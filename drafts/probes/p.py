import sys, io, itertools, contextlib, traceback
sys.path.insert(0, __import__('os').environ.get('OL_REPO','/repo'))
import oneliner
from oneliner.config import Configs

def cfgs():
    for u in ["ast.unparse","oneliner"]:
        for w in ["list","chain_call"]:
            for s in ["if_expr","short_circuit"]:
                c = Configs(); c.unparser=u; c.expr_wrapper=w; c.if_style=s
                yield (u,w,s), c

def run(src, mode):
    buf = io.StringIO()
    g = {"__name__":"__main__"}
    try:
        with contextlib.redirect_stdout(buf):
            if mode=="exec": exec(compile(src,"<s>","exec"), g)
            else: eval(compile(src,"<o>","eval"), g)
        err=None
    except BaseException as e:
        err = f"{type(e).__name__}: {e}"
    return buf.getvalue(), err, g

def probe(src, show=False, only_default=False):
    o_out, o_err, o_g = run(src, "exec")
    print("---- SRC:", repr(src)[:200])
    print("  orig:", repr(o_out)[:200], o_err)
    res = {}
    for k,c in cfgs():
        try:
            t = oneliner.convert_code_string(src, configs=c)
        except BaseException as e:
            res[k] = ("CONVERT-RAISE", f"{type(e).__name__}: {e}"[:150]); continue
        try:
            compile(t, "<o>", "eval")
        except BaseException as e:
            res[k] = ("NOT-EXPR", f"{type(e).__name__}: {e}"[:100], t[:300]); continue
        c_out, c_err, c_g = run(t, "eval")
        if c_out==o_out and c_err is None and o_err is None:
            # compare globals
            bad=[]
            for n,v in o_g.items():
                if n.startswith('__'): continue
                if n not in c_g: bad.append(('missing',n)); continue
                try:
                    if repr(v)!=repr(c_g[n]) and not callable(v) : bad.append(('diff',n,repr(v)[:50],repr(c_g[n])[:50]))
                except Exception as e: pass
            extra=[n for n in c_g if n not in o_g and not n.startswith('__ol_') and n not in('itertools','importlib','__builtins__')]
            if bad or extra: res[k]=("GLOBALS", bad, extra, t[:300] if show else '')
            else: res[k]=("OK", t if show else '')
        else:
            res[k]=("DIFF", repr(c_out)[:200], c_err, t[:400] if show else '')
    # group
    groups={}
    for k,v in res.items(): groups.setdefault(repr(v),[]).append(k)
    for v,ks in groups.items():
        print("  ", len(ks), "cfgs" if len(ks)<8 else "ALL", ks if len(ks)<8 else '', v[:700])

if __name__=="__main__":
    for s in sys.argv[1:]:
        probe(s, show=True)
