import sys, ast, warnings, itertools, collections
sys.path.insert(0, __import__('os').environ.get('OL_REPO','/repo')); warnings.simplefilter('ignore')
from oneliner.expr_unparse import expr_unparse
A = ["'", '"', "\\", "{", "}", "\n", "a", "\r", "\t", "\x00", "é", " ", "\U0001F600"]
st=collections.Counter(); ex={}
def mk_const(s): return ast.Constant(value=s)
def positions(s):
    c = ast.Constant(value=s)
    yield 'const', c
    yield 'fs_lit', ast.JoinedStr(values=[ast.Constant(value=s), ast.FormattedValue(value=ast.Name(id='x',ctx=ast.Load()), conversion=-1)]) if s else c
    yield 'fs_field', ast.JoinedStr(values=[ast.FormattedValue(value=ast.Constant(value=s), conversion=-1)])
    yield 'fs_field_sub', ast.JoinedStr(values=[ast.FormattedValue(value=ast.Subscript(value=ast.Name(id='d',ctx=ast.Load()), slice=ast.Constant(value=s), ctx=ast.Load()), conversion=-1)])
    yield 'fs_spec_lit', ast.JoinedStr(values=[ast.FormattedValue(value=ast.Name(id='x',ctx=ast.Load()), conversion=-1, format_spec=ast.JoinedStr(values=[ast.Constant(value=s)]))]) if s else c
    yield 'fs_spec_field', ast.JoinedStr(values=[ast.FormattedValue(value=ast.Name(id='x',ctx=ast.Load()), conversion=-1, format_spec=ast.JoinedStr(values=[ast.FormattedValue(value=ast.Constant(value=s), conversion=-1), ast.Constant(value='z')]))])
    yield 'fs_nested2', ast.JoinedStr(values=[ast.FormattedValue(value=ast.JoinedStr(values=[ast.FormattedValue(value=ast.Constant(value=s), conversion=-1)]), conversion=-1)])
    yield 'bytes', ast.Constant(value=s.encode('utf8','surrogatepass'))
def valid(tree):
    # parser-producible? check via ast.unparse round trip
    try:
        t = ast.unparse(tree); b = ast.parse(t, mode='eval').body
        return ast.dump(b)==ast.dump(tree)
    except Exception: return False
for n in range(0,4):
    for tup in itertools.product(A, repeat=n):
        s="".join(tup)
        for pos, tree in positions(s):
            ast.fix_missing_locations(tree)
            if not valid(tree): st['invalid:'+pos]+=1; continue
            st['n']+=1
            try: txt=expr_unparse(tree)
            except Exception as e: st['raise']+=1; ex.setdefault(('raise',pos,type(e).__name__),(s,)); continue
            if '\n' in txt or '\r' in txt: st['newline']+=1; ex.setdefault(('newline',pos),(s,txt))
            try: back=ast.parse(txt,mode='eval').body
            except Exception as e: st['noparse']+=1; ex.setdefault(('noparse',pos),(s,txt,str(e)[:50])); continue
            if ast.dump(back)!=ast.dump(tree): st['diff']+=1; ex.setdefault(('diff',pos),(s,txt, ast.dump(back)[:150]))
print(st)
for k,v in ex.items(): print(k, repr(v)[:300])
