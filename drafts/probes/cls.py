import sys, os, io, contextlib, collections, itertools
sys.path.insert(0, os.environ.get('OL_REPO','/repo'))
import oneliner
from oneliner.config import Configs
PRE='''
class M0(type):
    def __call__(cls, *a, **k):
        r = super().__call__(*a, **k); r.made_by = 'M0'; return r
class G0:
    gv = 'g0'
    def who(self): return 'G0'
    def __init_subclass__(cls, tag=None, **kw):
        super().__init_subclass__(**kw); cls.tag = tag
class G1:
    def who(self): return 'G1'
    def other(self): return 'o1'
class D1(G0):
    def who(self): return 'D1>' + super().who()
class D2(G0):
    def who(self): return 'D2>' + super().who()
class WM(metaclass=M0): pass
def dec1(c):
    c.d1 = 'yes'; return c
def dec2(c):
    c.order = getattr(c, 'd1', 'no'); return c
'''
BASES={'none':'','one':'G1','two':'G0, G1','inh':'D1','diamond':'D1, D2','wm':'WM'}
META={'implicit':'','explicit':'metaclass=M0'}
KW={'nokw':'','kw':"tag='T'"}
DECO={'0':'','1':'@dec1\n','2':'@dec2\n@dec1\n'}
MEMBERS={
 'data':"    x = 1\n",
 'computed':"    x = 2\n    y = x * 3\n",
 'method':"    def m(self): return ('m', self.__class__.__name__)\n",
 'static':"    @staticmethod\n    def s(a): return a + 1\n",
 'clsm':"    @classmethod\n    def c(cls): return cls.__name__\n",
 'prop':"    @property\n    def p(self): return getattr(self, '_p', 0)\n    @p.setter\n    def p(self, v): self._p = v * 2\n",
 'super0':"    def who(self): return 'K>' + super().who()\n",
 'super2':"    def who(self): return 'K2>' + super(K, self).who()\n",
 'init':"    def __init__(self): self.i = 5\n",
 'isc':"    def __init_subclass__(cls, **kw):\n        super().__init_subclass__(**kw); cls.sub = True\n",
 'nested':"    class In:\n        z = 9\n        def f(self): return 'in'\n",
 'ifwhile':"    n = 0\n    while n < 3:\n        n += 1\n    if n == 3:\n        w = 'three'\n    else:\n        w = 'other'\n",
 'comp':"    xs = [1, 2, 3]\n    ys = [e * 2 for e in xs]\n",
 'lam':"    lm = lambda self, q=2: q * 3\n",
 'forloop':"    acc = []\n    for e in (1, 2):\n        acc.append(e)\n",
}
def place(cls_src, where):
    if where=='module': return cls_src + "\nRES = K\n"
    ind="\n".join("    "+l for l in cls_src.split("\n"))
    if where=='func': return "def mk():\n"+ind+"\n    return K\nRES = mk()\n"
    if where=='cls': return "class Outer:\n"+ind+"\nRES = Outer.K\n"
    if where=='cls_in_func': return "def mk():\n    class Outer:\n"+"\n".join("        "+l for l in cls_src.split("\n"))+"\n    return Outer.K\nRES = mk()\n"
def inspect_cls(K):
    out={}
    out['mro']=[c.__name__ for c in K.__mro__]
    out['meta']=type(K).__name__
    out['attrs']={k:(repr(v) if isinstance(v,(int,str,list,tuple)) else type(v).__name__) for k,v in vars(K).items() if not (k.startswith('__') and k.endswith('__')) or k in('__init__','__init_subclass__')}
    try:
        inst=K()
    except Exception as e:
        out['inst']='EXC '+type(e).__name__; return out
    calls={}
    for name in ('m','s','c','who','other','lm'):
        if hasattr(inst,name):
            try: calls[name]=repr(getattr(inst,name)(*( (1,) if name=='s' else ())))
            except Exception as e: calls[name]='EXC '+type(e).__name__
    if hasattr(K,'p'):
        inst.p=4; calls['p']=inst.p
    for a in ('i','made_by','tag','gv','d1','order','x','y','n','w','ys','acc','sub'):
        if hasattr(inst,a): calls['a_'+a]=repr(getattr(inst,a))
    if hasattr(K,'In'): calls['In']=(K.In.z, K.In().f())
    try:
        Sub=type(K)('Sub',(K,),{})
        calls['sub']=( [c.__name__ for c in Sub.__mro__][:3], getattr(Sub,'sub',None), getattr(Sub,'tag','-'))
        if hasattr(Sub,'c'): calls['sub_c']=Sub.c()
    except Exception as e: calls['sub']='EXC '+type(e).__name__
    out['calls']=calls
    return out
def run(code, mode):
    g={'__name__':'__main__'}
    try:
        exec(code,g) if mode=='exec' else eval(code,g)
    except BaseException as e: return ('EXC', type(e).__name__+':'+str(e)[:50])
    return inspect_cls(g['RES'])
cfgs=[]
for u,w in (("ast.unparse","chain_call"),("oneliner","list")):
    c=Configs(); c.unparser=u; c.expr_wrapper=w; cfgs.append(c)
st=collections.Counter(); bad=collections.Counter(); ex={}
msets=[(m,) for m in MEMBERS]+list(itertools.combinations(MEMBERS,2))
for bk,b in BASES.items():
  for mk,m in META.items():
    for kk,k in KW.items():
      for dk,d in DECO.items():
        for ms in msets:
          for where in ('module','func','cls','cls_in_func'):
            hdr=", ".join(x for x in (b,m,k) if x)
            body="".join(MEMBERS[x] for x in ms) or "    pass\n"
            cls_src=f"{d}class K({hdr}):\n{body}" if hdr else f"{d}class K:\n{body}"
            if where in('cls','cls_in_func') and d: 
                # decorators defined at module level: visible
                pass
            src=PRE+place(cls_src.rstrip("\n"), where)
            try: co=compile(src,'s','exec')
            except SyntaxError as e: st['syntax']+=1; continue
            ref=run(co,'exec')
            if isinstance(ref,tuple) and ref[0]=='EXC': st['orig-exc']+=1; continue
            st['valid']+=1
            for c in cfgs:
                try:
                    t=oneliner.convert_code_string(src,configs=c); got=run(compile(t,'o','eval'),'eval')
                except Exception as e: got=('CONV',repr(e)[:70])
                if got!=ref:
                    key=tuple(sorted(set(ms)))
                    sig=(got[1][:40] if isinstance(got,tuple) else 'diff')
                    bad[(sig, where if 'super2' in ms else '')]+=1; ex.setdefault((sig, where if 'super2' in ms else ''),(bk,mk,kk,dk,ms,where, ref if not isinstance(got,tuple) else '', got))
                    break
print(st)
for k,v in bad.most_common(30): print(v,k,str(ex[k])[:600])
