import sys, io, contextlib
sys.path.insert(0,'/repo'); sys.path.insert(0,'/tmp/probe/pk')
import oneliner
def clean():
    for m in list(sys.modules):
        if m.startswith('vpkg'): del sys.modules[m]
def run(code, mode, pkg):
    clean()
    buf=io.StringIO(); g={'__name__':pkg+'.main','__package__':pkg}
    try:
        with contextlib.redirect_stdout(buf):
            exec(code,g) if mode=='exec' else eval(code,g)
        err=None
    except BaseException as e: err=f"{type(e).__name__}: {e}"
    return buf.getvalue(), err, {k:(v.__name__ if hasattr(v,'__name__') else v) for k,v in g.items() if not k.startswith('__')}
for pkg,src in [
  ('vpkg', "from . import other\nprint(other.o)"),
  ('vpkg', "from .sub import val, leaf\nprint(val, leaf.leafval)"),
  ('vpkg.sub', "from .. import other as q\nprint(q.o)"),
  ('vpkg.sub', "from ..other import o\nprint(o)"),
  ('vpkg.sub', "from . import leaf\nfrom .leaf import leafval as lv\nprint(lv)"),
  ('vpkg.sub', "def f():\n    from .. import top\n    return top\nprint(f())"),
  ('vpkg.sub', "class A:\n    from ..other import o\nprint(A.o)"),
]:
    ref=run(compile(src,'s','exec'),'exec',pkg)
    t=oneliner.convert_code_string(src)
    got=run(compile(t,'o','eval'),'eval',pkg)
    got=(got[0],got[1],{k:v for k,v in got[2].items() if not k.startswith('__ol') and k not in('importlib','itertools')})
    print('OK ' if ref==got else 'DIFF', repr(src)[:60], ref if ref!=got else '', got if ref!=got else '')
