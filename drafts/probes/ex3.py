import sys, ast, warnings, itertools, collections, time
sys.path.insert(0, __import__('os').environ.get('OL_REPO','/repo')); warnings.simplefilter('ignore')
from oneliner.expr_unparse import expr_unparse
# slots: templates with one hole {0}; child inserted parenthesised unless marked raw
SLOTS = {
 'attr': "{0}.a", 'sub_val': "{0}[a]", 'sub_idx': "a[{0}]", 'sl_lo': "a[{0}:]", 'sl_up': "a[:{0}]", 'sl_st': "a[::{0}]", 'sl_all':"a[{0}:{0}:{0}]",
 'sub_tup': "a[{0}, b]", 'sub_tup_last': "a[b, {0}]",
 'call_f': "{0}()", 'call_f_args': "{0}(a, b=c)", 'call_only': "f({0})", 'call_first': "f({0}, b)", 'call_last': "f(a, {0})", 'call_mid': "f(a, {0}, b)", 'call_kw': "f(k={0})", 'call_arg_kw': "f(a, k={0})",
 'call_star': "f(*{0})", 'call_dstar': "f(**{0})", 'call_after_kw': "f(k=a, *{0})", 'call_star_then': "f(*{0}, a)",
 **{f'bin_{n}_l': "{0}"+op+"a" for n,op in [('pow','**'),('mul','*'),('mat','@'),('div','/'),('fdiv','//'),('mod','%'),('add','+'),('sub','-'),('shl','<<'),('shr','>>'),('and','&'),('xor','^'),('or','|')]},
 **{f'bin_{n}_r': "a"+op+"{0}" for n,op in [('pow','**'),('mul','*'),('mat','@'),('div','/'),('fdiv','//'),('mod','%'),('add','+'),('sub','-'),('shl','<<'),('shr','>>'),('and','&'),('xor','^'),('or','|')]},
 'and_f': "{0} and a", 'and_m': "a and {0} and b", 'and_l': "a and {0}", 'or_f': "{0} or a", 'or_m': "a or {0} or b", 'or_l': "a or {0}",
 'uadd': "+{0}", 'usub': "-{0}", 'inv': "~{0}", 'not': "not {0}",
 'cmp_l': "{0} < a", 'cmp_r': "a < {0}", 'cmp_m': "a < {0} < b", 'is_l': "{0} is a", 'is_r': "a is {0}", 'isnot_r': "a is not {0}", 'in_l': "{0} in a", 'in_r': "a in {0}", 'notin_l': "{0} not in a", 'notin_r': "a not in {0}", 'eq_r': "a == {0}", 'ne_l': "{0} != a",
 'if_body': "{0} if a else b", 'if_test': "a if {0} else b", 'if_else': "a if b else {0}",
 'lam_body': "lambda: {0}", 'lam_body_args': "lambda x, *y, z=1, **w: {0}", 'lam_def': "lambda x={0}: x", 'lam_def2': "lambda x, y={0}, /, z={0}: x", 'lam_kwdef': "lambda *, x={0}: x", 'lam_kwdef2': "lambda *a, x, y={0}: x",
 'list_e': "[a, {0}, b]", 'list_1': "[{0}]", 'tup_1': "({0},)", 'tup_f': "({0}, a)", 'tup_l': "(a, {0})", 'set_e': "{{a, {0}}}", 'set_1': "{{{0}}}",
 'dict_k': "{{{0}: a}}", 'dict_v': "{{a: {0}}}", 'dict_dstar': "{{**{0}}}", 'dict_k2': "{{a: b, {0}: c}}",
 'star_list': "[*{0}]", 'star_tup': "(*{0}, a)", 'star_set': "{{*{0}}}",
 'lc_elt': "[{0} for x in y]", 'lc_iter': "[x for x in {0}]", 'lc_if': "[x for x in y if {0}]", 'lc_if2': "[x for x in y if a if {0}]", 'lc_iter2': "[x for x in y for z in {0}]",
 'sc_elt': "{{{0} for x in y}}", 'dc_k': "{{{0}: a for x in y}}", 'dc_v': "{{a: {0} for x in y}}", 'dc_iter': "{{a: b for x in {0}}}",
 'ge_elt': "({0} for x in y)", 'ge_iter': "(x for x in {0})", 'ge_if': "(x for x in y if {0})", 'ge_call': "f({0} for x in y)", 'ge_call_iter': "f(x for x in {0})",
 'walrus': "(w := {0})", 'await': "await {0}", 'yield': "yield {0}", 'yield_from': "yield from {0}",
 'fs': "f'{{{0}}}'", 'fs_spec': "f'{{a:{{{0}}}}}'", 'fs_conv': "f'{{{0}!r}}'", 'fs_fmt': "f'{{{0}:>3}}'",
}
CHILD = {
 'name':"a", 'int':"1", 'float':"1.5", 'imag':"1j", 'str':"'s'", 'bytes':"b's'", 'none':"None", 'ell':"...", 'elist':"[]", 'etup':"()", 'edict':"{}",
 'yield0':"yield",
}
# child kinds from slots themselves with atom 'q' in the hole
def fill(t, s): return t.replace("{0}", s).replace("{{","{").replace("}}","}") if False else t.format(s)
KINDS = dict(CHILD)
for k,t in SLOTS.items():
    KINDS['k_'+k] = t.format("q")
def check(src, st, ex, tag):
    try:
        tree = ast.parse(src, mode='eval').body
    except SyntaxError:
        st['badsrc']+=1; ex.setdefault('badsrc:'+tag, src); return
    st['n']+=1
    try:
        txt = expr_unparse(tree)
    except Exception as e:
        st['raise']+=1; ex.setdefault(('raise',type(e).__name__), (src,)); return
    try:
        back = ast.parse(txt, mode='eval').body
    except Exception as e:
        st['noparse']+=1; ex.setdefault(('noparse',tag), (src,txt)); return
    if ast.dump(back)!=ast.dump(tree):
        st['diff']+=1; ex.setdefault(('diff',tag), (src,txt))
def main(depth3):
    st=collections.Counter(); ex={}
    t0=time.time()
    for sk,s in SLOTS.items():
        for ck,c in KINDS.items():
            check(s.format("("+c+")"), st, ex, f"{sk}<{ck}")
    print('depth2', st, time.time()-t0)
    if depth3:
        for sk,s in SLOTS.items():
            for mk,m in SLOTS.items():
                for ck,c in KINDS.items():
                    check(s.format("("+m.format("("+c+")")+")"), st, ex, f"{sk}<{mk}<{ck}")
        print('depth3', st, time.time()-t0)
    groups=collections.Counter()
    for k,v in ex.items():
        if isinstance(k,tuple):
            print(k, v)
    print(len(SLOTS), len(KINDS))
if __name__=="__main__": main(len(sys.argv)>1)
