import sys, json, glob, os
sys.path.insert(0, __import__('os').environ.get('OL_REPO','/repo'))
import oneliner
from oneliner.config import Configs
out=[]
for f in sorted(glob.glob('/repo/oneliner_tests/test_cases/*.py')):
    src=open(f).read()
    if 'aug_assign' in f or 'for_loop_count' in f: continue
    for u in ["ast.unparse","oneliner"]:
        for w in ["list","chain_call"]:
            for s in ["if_expr","short_circuit"]:
                c=Configs(); c.unparser=u; c.expr_wrapper=w; c.if_style=s
                try: t=oneliner.convert_code_string(src,configs=c)
                except Exception as e: t=None
                out.append(dict(file=os.path.basename(f), cfg=[u,w,s], src=src, text=t))
json.dump(out, open(sys.argv[1],'w'))
