import sys
sys.path.insert(0,'/tmp/probe/pk')
from p import probe
def clean():
    for m in list(sys.modules):
        if m.startswith('vpkg'): del sys.modules[m]
import p
_run = p.run
def run2(src, mode):
    clean()
    return _run(src, mode)
p.run = run2
probe("import vpkg\nprint(vpkg.top)")
probe("import vpkg.sub\nprint(vpkg.sub.val, vpkg.top)")
probe("import vpkg.sub as s\nprint(s.val)")
probe("import vpkg.sub.leaf as s, vpkg.other as o\nprint(s.leafval, o.o)")
probe("from vpkg import top as t, sub\nprint(t, sub.val)")
probe("from vpkg.sub import leaf\nprint(leaf.leafval)")
probe("from vpkg import other, sub\nprint(other.o)")
probe("def f():\n    import vpkg.other as q\n    from vpkg.sub import val\n    return q.o, val\nprint(f())")
probe("class A:\n    import vpkg.other as q\n    from vpkg.sub import val\nprint(A.q.o, A.val)")
probe("def f():\n    from vpkg.sub import val\n    def g(): return val\n    return g()\nprint(f())")
probe("def f():\n    global val\n    from vpkg.sub import val\nf()\nprint(val)")
