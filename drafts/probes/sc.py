import sys, random, io, itertools, collections, contextlib
sys.path.insert(0, __import__('os').environ.get('OL_REPO','/repo'))
import oneliner
from oneliner.config import Configs
KINDS=['func','class','lambda','comp']
ROLES_STMT=['none','read','assign','aug','walrus','for','global_assign','global_read','nonlocal_assign','nonlocal_read','def','classbind','import','assign_read_before']
ROLES_FUNC=ROLES_STMT+['param']
ROLES_LAMBDA=['none','read','param','walrus']
ROLES_COMP=['none','read','target','walrus']
class G:
    def __init__(s, rng): s.rng=rng; s.n=0; s.v=100
    def uid(s): s.n+=1; return s.n
    def val(s): s.v+=1; return s.v
    def scope(s, kind, depth, maxdepth):
        r=s.rng
        roles={'module':ROLES_STMT,'func':ROLES_FUNC,'class':ROLES_STMT,'lambda':ROLES_LAMBDA,'comp':ROLES_COMP}[kind]
        role=r.choice(roles)
        nchild = 0 if depth>=maxdepth else r.choice([0,1,1,2])
        children=[s.scope(r.choice(KINDS), depth+1, maxdepth) for _ in range(nchild)]
        return dict(kind=kind, role=role, id=s.uid(), children=children)
def render_stmt_scope(sc, ind, g):
    """returns lines for body of a statement-scope (module/func/class)"""
    p=' '*ind; L=[]; i=sc['id']; role=sc['role']
    if role=='read': L.append(f"{p}L({i},'r',x)")
    elif role=='assign': L.append(f"{p}x = {g.val()}"); L.append(f"{p}L({i},'a',x)")
    elif role=='assign_read_before': L.append(f"{p}L({i},'rb',x)"); L.append(f"{p}x = {g.val()}"); L.append(f"{p}L({i},'a',x)")
    elif role=='aug': L.append(f"{p}x += 1000"); L.append(f"{p}L({i},'g',x)")
    elif role=='walrus': L.append(f"{p}L({i},'w',(x := {g.val()}))"); L.append(f"{p}L({i},'w2',x)")
    elif role=='for': L.append(f"{p}for x in [{g.val()},{g.val()}]:"); L.append(f"{p} L({i},'f',x)")
    elif role=='global_assign': L.append(f"{p}global x"); L.append(f"{p}x = {g.val()}"); L.append(f"{p}L({i},'ga',x)")
    elif role=='global_read': L.append(f"{p}global x"); L.append(f"{p}L({i},'gr',x)")
    elif role=='nonlocal_assign': L.append(f"{p}nonlocal x"); L.append(f"{p}x = {g.val()}"); L.append(f"{p}L({i},'na',x)")
    elif role=='nonlocal_read': L.append(f"{p}nonlocal x"); L.append(f"{p}L({i},'nr',x)")
    elif role=='def': L.append(f"{p}def x(): return {g.val()}"); L.append(f"{p}L({i},'d',x())")
    elif role=='classbind': L.append(f"{p}class x: v={g.val()}"); L.append(f"{p}L({i},'c',x.v)")
    elif role=='import': L.append(f"{p}import math as x"); L.append(f"{p}L({i},'i',x.__name__)")
    elif role=='param': L.append(f"{p}L({i},'p',x)")
    for ch in sc['children']:
        L+=render_child(ch, ind, g, sc)
    if role not in ('none','global_read','nonlocal_read','read') or True:
        pass
    if role in ('assign','aug','walrus','global_assign','nonlocal_assign','param','assign_read_before','read','global_read','nonlocal_read'):
        L.append(f"{p}L({i},'end',x)")
    if not L: L.append(f"{p}pass")
    return L
def render_expr_scope(sc, g):
    """lambda/comp: returns expression text"""
    i=sc['id']; role=sc['role']; parts=[]
    if role in('read','param','target'): parts.append(f"L({i},'r',x)")
    if role=='walrus': parts.append(f"L({i},'w',(x := {g.val()}))"); parts.append(f"L({i},'w2',x)")
    for ch in sc['children']:
        if ch['kind'] in ('lambda','comp'):
            parts.append(expr_child(ch,g))
        # stmt scopes can't nest inside expression scopes
    if role in('read','param','target','walrus'): parts.append(f"L({i},'end',x)")
    inner="["+",".join(parts)+"]"
    return inner
def expr_child(ch,g):
    if ch['kind']=='lambda':
        body=render_expr_scope(ch,g)
        if ch['role']=='param': return f"(lambda x: {body})({g.val()})"
        return f"(lambda: {body})()"
    else:
        body=render_expr_scope(ch,g)
        t = 'x' if ch['role']=='target' else f"t{ch['id']}"
        return f"[{body} for {t} in [{g.val()}]]"
def render_child(ch, ind, g, parent):
    p=' '*ind; L=[]; i=ch['id']
    if ch['kind']=='func':
        if ch['role']=='param': L.append(f"{p}def f{i}(x):")
        else: L.append(f"{p}def f{i}():")
        L+=render_stmt_scope(ch, ind+1, g)
        L.append(f"{p}f{i}({g.val()})" if ch['role']=='param' else f"{p}f{i}()")
    elif ch['kind']=='class':
        L.append(f"{p}class K{i}:"); L+=render_stmt_scope(ch, ind+1, g)
    else:
        L.append(f"{p}{expr_child(ch,g)}")
    return L
def gen(rng, maxdepth):
    g=G(rng)
    root=g.scope('module',0,maxdepth)
    lines=render_stmt_scope(root,0,g)
    return "x = 1\n"*rng.choice([0,1,1])+"\n".join(lines), root

def run(code, mode):
    log=[]
    def L(*a):
        log.append(tuple(v if isinstance(v,(int,str)) else 'obj' for v in a)); return a[-1]
    g={'L':L,'__name__':'__main__'}
    err=None
    try:
        if mode=='exec': exec(code,g)
        else: eval(code,g)
    except BaseException as e: err=f"{type(e).__name__}: {e}"
    x=g.get('x','<unbound>')
    if callable(x) or hasattr(x,'__name__'): x='obj'
    return log, err, x
def sig(root):
    out=[]
    def w(s,d): out.append((d,s['kind'],s['role'])); [w(c,d+1) for c in s['children']]
    w(root,0); return tuple(out)
def main(seed,n,maxdepth):
    rng=random.Random(seed)
    cs=[]
    for u,w in (("oneliner","list"),("ast.unparse","chain_call")):
        c=Configs(); c.unparser=u; c.expr_wrapper=w; cs.append(c)
    st=collections.Counter(); fails=[]
    for _ in range(n):
        src,root=gen(rng,maxdepth)
        try: co=compile(src,'<s>','exec')
        except SyntaxError as e: st['syntax']+=1; continue
        olog,oerr,ox=run(co,'exec')
        if oerr: st['orig-exc']+=1; continue
        st['valid']+=1
        for c in cs:
            try:
                t=oneliner.convert_code_string(src,configs=c); cc=compile(t,'<o>','eval')
            except BaseException as e:
                fails.append((src,sig(root),'convert:'+repr(e)[:80])); st['fail']+=1; break
            clog,cerr,cx=run(cc,'eval')
            if clog!=olog or cerr or cx!=ox:
                fails.append((src,sig(root),cerr or 'logdiff')); st['fail']+=1; break
    print(st)
    # bucket by set of (kind,role) present
    byrole=collections.Counter()
    for src,sg,e in fails:
        for d,k,r in set(sg): byrole[(k,r)]+=1
    print(byrole.most_common(40))
    fails.sort(key=lambda f: len(f[0]))
    return fails
if __name__=='__main__':
    fails=main(int(sys.argv[1]), int(sys.argv[2]), int(sys.argv[3]))
    seen=collections.Counter()
    for src,sg,e in fails:
        key=e[:30]
        seen[key]+=1
        if seen[key]<=3:
            print("=====",e, sg); print(src)
