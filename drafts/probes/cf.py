import sys, random, io, itertools, traceback, collections
sys.path.insert(0, __import__('os').environ.get('OL_REPO','/repo'))
import oneliner
from oneliner.config import Configs

def cfgs():
    out=[]
    for u in ["ast.unparse","oneliner"]:
        for w in ["list","chain_call"]:
            for s in ["if_expr","short_circuit"]:
                c = Configs(); c.unparser=u; c.expr_wrapper=w; c.if_style=s
                out.append(((u,w,s), c))
    return out

class Gen:
    def __init__(self, rng, place):
        self.rng=rng; self.n=0; self.place=place
    def nid(self):
        self.n+=1; return self.n
    def block(self, depth, in_loop, in_func, budget):
        k=self.rng.randint(1,3)
        out=[]
        for _ in range(k):
            out.append(self.stmt(depth, in_loop, in_func))
        return out
    def stmt(self, depth, in_loop, in_func):
        r=self.rng
        choices=['M','M']
        if in_loop: choices+=['break','continue']
        if in_func: choices+=['return','returnv']
        if depth<3: choices+=['if','if','ifelse','while','for','whileelse','forelse']
        c=r.choice(choices)
        if c=='M': return ('M', self.nid())
        if c in('break','continue'): return (c,)
        if c=='return': return ('return',None)
        if c=='returnv': return ('return', self.nid())
        if c=='if': return ('if', self.nid(), self.block(depth+1,in_loop,in_func,0), [])
        if c=='ifelse': return ('if', self.nid(), self.block(depth+1,in_loop,in_func,0), self.block(depth+1,in_loop,in_func,0))
        if c=='while': return ('while', self.nid(), self.block(depth+1,True,in_func,0), [])
        if c=='whileelse': return ('while', self.nid(), self.block(depth+1,True,in_func,0), self.block(depth+1,in_loop,in_func,0))
        if c=='for': return ('for', self.nid(), self.block(depth+1,True,in_func,0), [])
        if c=='forelse': return ('for', self.nid(), self.block(depth+1,True,in_func,0), self.block(depth+1,in_loop,in_func,0))

def render(block, ind):
    lines=[]
    p=' '*ind
    for s in block:
        if s[0]=='M': lines.append(f"{p}M({s[1]})")
        elif s[0] in ('break','continue'): lines.append(p+s[0])
        elif s[0]=='return': lines.append(p+('return' if s[1] is None else f"return R({s[1]})"))
        elif s[0]=='if':
            lines.append(f"{p}if C({s[1]}):"); lines+=render(s[2],ind+1)
            if s[3]: lines.append(p+"else:"); lines+=render(s[3],ind+1)
        elif s[0]=='while':
            lines.append(f"{p}while W({s[1]}):"); lines+=render(s[2],ind+1)
            if s[3]: lines.append(p+"else:"); lines+=render(s[3],ind+1)
        elif s[0]=='for':
            lines.append(f"{p}for v{s[1]} in IT({s[1]}):"); lines+=render(s[2],ind+1)
            if s[3]: lines.append(p+"else:"); lines+=render(s[3],ind+1)
    return lines

class Fuel(Exception): pass
def make_env(sched_seed, fuel=400):
    log=[]
    rng=random.Random(sched_seed)
    bits=[rng.random() for _ in range(2000)]
    st={'i':0,'fuel':fuel}
    def tick():
        st['fuel']-=1
        if st['fuel']<0: raise Fuel()
    def nb(p):
        b=bits[st['i']%2000]<p; st['i']+=1; return b
    def M(i): tick(); log.append(('M',i))
    def C(i): tick(); b=nb(0.5); log.append(('C',i,b)); return b
    wcnt=collections.Counter()
    def W(i):
        tick(); wcnt[i]+=1
        b = nb(0.7) and wcnt[i]<=3*1000
        log.append(('W',i,b)); return b
    def R(i): tick(); log.append(('R',i)); return i
    class It:
        def __init__(s,i,n): s.i=i; s.n=n; s.k=0
        def __iter__(s): log.append(('iter',s.i)); return s
        def __next__(s):
            tick(); log.append(('next',s.i,s.k))
            if s.k>=s.n: raise StopIteration
            s.k+=1; return s.k
    def IT(i):
        log.append(('IT',i)); return It(i, 1+ (nb(0.5)) + (nb(0.5)))
    return log, dict(M=M,C=C,W=W,R=R,IT=IT)

def run(code, mode, sched_seed, fuel):
    log, env = make_env(sched_seed, fuel)
    g=dict(env); g['__name__']='__main__'
    err=None
    try:
        if mode=='exec': exec(code,g)
        else: eval(code,g)
    except Fuel: err='FUEL'
    except BaseException as e: err=f"{type(e).__name__}: {e}"
    return log, err, g.get('RESULT')

def main(seed, n):
    rng=random.Random(seed)
    C=cfgs()
    stats=collections.Counter(); fails=[]
    for case in range(n):
        place=rng.choice(['module','func','class','func_in_loop'])
        g=Gen(rng, place)
        body=g.block(0, False, place in('func',), 0)
        if place=='module': src="\n".join(render(body,0))
        elif place=='func': src="def f():\n"+"\n".join(render(body,1))+"\nRESULT=f()\nRESULT2=f()"
        elif place=='class': src="class K:\n"+"\n".join(render(body,1))
        else:
            g2=Gen(rng,place); g2.n=100
            inner=g2.block(0,False,True,0)
            src="for q in IT(99):\n def f():\n"+"\n".join(render(inner,2))+"\n RESULT=f()\n"+"\n".join(render(g.block(1,True,False,0),1))
        try: compile(src,'<s>','exec')
        except SyntaxError as e:
            stats['badsrc']+=1; continue
        for ss in range(3):
            olog, oerr, ores = run(compile(src,'<s>','exec'),'exec', ss, 300)
            if oerr=='FUEL': stats['orig-fuel']+=1; continue
            if oerr: stats['orig-err']+=1; print("ORIGERR", oerr, src); continue
            stats['ok-orig']+=1
            for k,c in C:
                try:
                    random.seed(1)
                    t=oneliner.convert_code_string(src, configs=c)
                    co=compile(t,'<o>','eval')
                except BaseException as e:
                    fails.append((src,k,ss,'convert/compile',repr(e)[:200])); stats['fail']+=1; break
                clog, cerr, cres = run(co,'eval', ss, 300+len(olog)*3)
                if clog!=olog or cerr or cres!=ores:
                    fails.append((src,k,ss,cerr,None)); stats['fail']+=1; break
    print(stats)
    seen=set()
    fails.sort(key=lambda f: len(f[0]))
    for f in fails[:8]:
        print("=====",f[1],f[2],f[3],f[4]); print(f[0])
    return fails
if __name__=='__main__':
    main(int(sys.argv[1]), int(sys.argv[2]))
