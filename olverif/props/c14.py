"""C14 - imports bind the same objects to the same names.

Domain   G-IMPORT over the vendored package fixtures/vpkg (every module logs its own import):
         every statement form x alias / no alias x placement {module, function, class body,
         function with a global declaration, function whose nested function captures the name} x
         relative level 0-2 (program executed as a module inside the package). Complete.
Oracle   before each run the vendored entries are removed from sys.modules. Compared: the import
         log (which modules, once, in which order), the canonical value of every bound name
         (modules by name, attributes by value), the set of new vendored sys.modules keys, the
         final globals (where the name ended up).
"""
import os
import sys

from .. import env
from ..kit import Kit, run_code, compare_obs
from ..runner import new_part, key_hash

RULE = ("every import form over the vendored package tree (import a / a.b / a.b.c with and without "
        "alias, several modules in one statement, from-import of attributes, of not-yet-imported "
        "submodules, of several names with aliases, relative imports of level 1 and 2 with and "
        "without a module name, repeated and interleaved statements, future statements) x placement "
        "{module, function, class body, function with global declaration, function with a capturing "
        "nested function or class, function in function, method, class in function, method of a "
        "nested class, if/else branch, for/while body, loop in a function} "
        "x 8 configurations; sys.modules is reset before every run. Non-trivial: dotted, relative, "
        "multi-name or submodule form; distinct by (statement, placement).")

FIX = os.path.join(env.VERIF, "fixtures")

# (statement, bound names, tag)  -- absolute forms
ABS = [
    ("import vtop", ["vtop"], "plain"),
    ("import vtop as vt", ["vt"], "plain-alias"),
    ("import vpkg", ["vpkg"], "package"),
    ("import vpkg.leaf", ["vpkg"], "dotted"),
    ("import vpkg.sub.mod", ["vpkg"], "dotted3"),
    ("import vpkg.sub.deep.bottom", ["vpkg"], "dotted4"),
    ("import vpkg.leaf as lf", ["lf"], "dotted-alias"),
    ("import vpkg.sub.mod as sm", ["sm"], "dotted3-alias"),
    ("import vpkg.sub.deep.bottom as bt", ["bt"], "dotted4-alias"),
    ("import vtop, vpkg.other as oth", ["vtop", "oth"], "multi"),
    ("import vpkg.leaf, vpkg.sub.sib, vtop as vt", ["vpkg", "vt"], "multi-dotted"),
    ("import vpkg.sub.mod as m1, vpkg.sub as s1, vpkg as p1", ["m1", "s1", "p1"], "multi-alias"),
    ("from vtop import T", ["T"], "from-attr"),
    ("from vtop import T as tt, Cls", ["tt", "Cls"], "from-multi"),
    ("from vpkg import leaf", ["leaf"], "from-submodule"),
    ("from vpkg import leaf as lf", ["lf"], "from-submodule-alias"),
    ("from vpkg import X, other as oth, top_value", ["X", "oth", "top_value"], "from-mixed"),
    ("from vpkg.sub import mod", ["mod"], "from-dotted-submodule"),
    ("from vpkg.sub import mod as md, sib, S", ["md", "sib", "S"], "from-dotted-mixed"),
    ("from vpkg.sub.mod import M, REL as rel", ["M", "rel"], "from-dotted-attr"),
    ("from vpkg.sub.deep import bottom as bt", ["bt"], "from-dotted3-submodule-alias"),
    ("from vpkg.sub.deep.bottom import B", ["B"], "from-dotted4-attr"),
    ("import vpkg.leaf\nimport vpkg.other", ["vpkg"], "two-statements"),
    ("import vpkg.sub.mod as sm\nfrom vpkg.sub import sib\nimport vpkg", ["sm", "sib", "vpkg"], "interleaved"),
    ("from vpkg import leaf\nfrom vpkg import leaf as again\nimport vpkg.leaf as third", ["leaf", "again", "third"], "repeated"),
    ("import math, vtop\nfrom os import path as osp, sep", ["math", "vtop", "osp", "sep"], "with-stdlib"),
    # the top-level name is rebound between two dotted imports: the second one binds it again
    ("import vpkg.leaf\nvpkg = None\nimport vpkg.other", ["vpkg"], "rebound-between"),
    ("import vpkg.leaf\nkeep = vpkg\nvpkg = 'shadow'\nimport vpkg.sub.mod\nsame = keep is vpkg", ["vpkg", "same"], "rebound-between-deep"),
    ("import vpkg.leaf as vpkg\nimport vpkg.other\nfrom vpkg import leaf as vpkg", ["vpkg"], "alias-then-plain-then-from"),
    ("from vtop import T\nT = T + '!'\nfrom vtop import T as T2, T", ["T", "T2"], "from-rebound"),
    ("from vpkg import other, leaf, other as o2, X, X as X2", ["other", "leaf", "o2", "X", "X2"], "from-duplicates-in-order"),
    # the same import twice in one scope: the first one did not run, or the name was rebound in between
    ("if P(1, 0):\n    import vpkg.leaf as lf\nimport vpkg.leaf as lf", ["lf"], "untaken-then-again"),
    ("if P(1, 0):\n    import vtop\nimport vtop", ["vtop"], "untaken-then-again-plain"),
    ("for zq in P(1, []):\n    from vpkg import leaf, X\nfrom vpkg import leaf, X", ["leaf", "X"], "zero-loop-then-again-from"),
    ("import vtop as vt\nvt = None\nimport vtop as vt", ["vt"], "alias-rebound-between"),
    ("import vtop\nvtop = 5\nimport vtop", ["vtop"], "plain-rebound-between"),
    ("from vpkg import leaf\nleaf = 'gone'\nfrom vpkg import leaf", ["leaf"], "from-rebound-between-same"),
    ("import vpkg.other\nimport vpkg.other\nimport vpkg.other as oth\nimport vpkg.other as oth", ["vpkg", "oth"], "same-statement-repeated"),
    # a future statement is an import too: it binds the feature object (only legal at the top of a module)
    ("from __future__ import annotations", ["annotations"], "future"),
    ("from __future__ import annotations as ann, division", ["ann", "division"], "future-alias-multi"),
    ("from __future__ import generator_stop\nimport vpkg.leaf as lf", ["generator_stop", "lf"], "future-then-import"),
]
# relative forms: the program is vpkg.sub.prog (package vpkg.sub)
REL = [
    ("from . import sib", ["sib"], "rel1-module"),
    ("from . import sib as sb, mod", ["sb", "mod"], "rel1-multi"),
    ("from .sib import SIB", ["SIB"], "rel1-attr"),
    ("from .mod import M as mm, REL", ["mm", "REL"], "rel1-attr-multi"),
    ("from .deep import bottom", ["bottom"], "rel1-subpackage-module"),
    ("from .deep.bottom import B as bb", ["bb"], "rel1-dotted-attr"),
    ("from . import S", ["S"], "rel1-package-attr"),
    ("from .. import leaf", ["leaf"], "rel2-module"),
    ("from .. import leaf as lf, X, other", ["lf", "X", "other"], "rel2-multi"),
    ("from ..leaf import V, fn as f2", ["V", "f2"], "rel2-attr"),
    ("from ..sub.sib import SIB as s2", ["s2"], "rel2-dotted-attr"),
    ("from .. import sub", ["sub"], "rel2-package"),
    ("from . import deep\nfrom .. import top_value\nimport vpkg.other", ["deep", "top_value", "vpkg"], "rel-mixed"),
]
PLACEMENTS = ("module", "function", "class", "global_decl", "captured", "captured_by_class",
              # the ONLY import of the program sits two or three scopes deep, or in a nested block
              "nested_function", "method", "class_in_function", "method_of_nested_class",
              "if_branch", "else_branch", "for_body", "while_body", "loop_in_function",
              # the import is the ONLY statement of a taken branch (its lowered value decides nothing)
              "if_branch_in_class", "if_branch_global_decl", "elif_branch_in_function",
              # blocks called `top` (the symtable module takes a block of that name for the module block)
              "class_named_top", "function_named_top", "captured_in_function_named_top")


def program(stmt, names, where):
    lines = stmt.split("\n")
    show = "L('bound', %s)" % ", ".join(names)
    if where == "module":
        return "\n".join(lines + [show]) + "\n"
    if where == "function":
        return "def FF():\n" + "\n".join("    " + l for l in lines + [show]) + "\nFF()\n"
    if where == "class":
        return "class KK:\n" + "\n".join("    " + l for l in lines + [show]) + "\nL('cls', %s)\n" % ", ".join("KK." + n for n in names)
    if where == "global_decl":
        return "def FF():\n    global %s\n" % ", ".join(names) + "\n".join("    " + l for l in lines) + "\nFF()\n" + show + "\n"
    if where == "captured":
        return ("def FF():\n" + "\n".join("    " + l for l in lines)
                + "\n    def GG():\n        return (%s,)\n    L('inner', *GG())\n    %s\nFF()\n" % (", ".join(names), show))
    if where == "captured_by_class":
        # the imported names are read by the body of a class nested in the function (and by a
        # comprehension in that class body): bindings that exist only because of the import
        return ("def FF():\n" + "\n".join("    " + l for l in lines)
                + "\n    class KK:\n        got = (%s,)\n        viacomp = [(%s,) for _q in range(1)]\n    L('cls', *KK.got)\n    L('comp', *KK.viacomp[0])\n    %s\nFF()\n"
                % (", ".join(names), ", ".join(names), show))
    ind = lambda n, ls: "\n".join(" " * (4 * n) + l for l in ls)
    if where == "nested_function":
        return "def FF():\n    def GG():\n%s\n    GG()\nFF()\n" % ind(2, lines + [show])
    if where == "method":
        return "class KK:\n    def mm(self):\n%s\nKK().mm()\n" % ind(2, lines + [show])
    if where == "class_in_function":
        return "def FF():\n    class KK:\n%s\n    L('cls', %s)\nFF()\n" % (ind(2, lines + [show]), ", ".join("KK." + n for n in names))
    if where == "method_of_nested_class":
        return "def FF():\n    class KK:\n        def mm(self):\n%s\n    KK().mm()\nFF()\n" % ind(3, lines + [show])
    if where == "if_branch":
        return "if P(1, 1):\n%s\nelse:\n    P(2)\n%s\n" % (ind(1, lines), show)
    if where == "class_named_top":
        return "class top:\n" + ind(1, lines + [show]) + "\nL('cls', %s)\n" % ", ".join("top." + n for n in names)
    if where == "function_named_top":
        return "def top():\n" + ind(1, lines + [show]) + "\ntop()\n"
    if where == "captured_in_function_named_top":
        return ("def top():\n" + ind(1, lines) + "\n    def GG():\n        return (%s,)\n    class KK:\n        got = (%s,)\n    L('inner', *GG())\n    L('cls', *KK.got)\n    %s\ntop()\n"
                % (", ".join(names), ", ".join(names), show))
    if where == "if_branch_in_class":
        return "class KK:\n    if P(1, 1):\n%s\n    else:\n        P(2)\n    %s\nL('cls', %s)\n" % (
            ind(2, lines), show, ", ".join("KK." + n for n in names))
    if where == "if_branch_global_decl":
        return "def FF():\n    global %s\n    if P(1, 1):\n%s\n    else:\n        P(2)\n    P(3)\nFF()\n%s\n" % (
            ", ".join(names), ind(2, lines), show)
    if where == "elif_branch_in_function":
        return "def FF():\n    if P(1, 0):\n        P(2)\n    elif P(3, 1):\n%s\n    elif P(4, 1):\n        P(5)\n    else:\n        P(6)\n    %s\nFF()\n" % (
            ind(2, lines), show)
    if where == "else_branch":
        return "if not P(1, 1):\n    P(2)\nelse:\n%s\n%s\n" % (ind(1, lines), show)
    if where == "for_body":
        return "for q in IT(1):\n%s\n    P(2)\n%s\n" % (ind(1, lines), show)
    if where == "while_body":
        return "n = [0]\nwhile n[0] < 2:\n    n[0] += 1\n%s\nelse:\n    P(2)\n%s\n" % (ind(1, lines), show)
    if where == "loop_in_function":
        return "def FF():\n    for q in IT(1):\n%s\n        if P(2, 1):\n            break\n    %s\nFF()\n" % (ind(2, lines), show)
    raise ValueError(where)


def vendored_modules():
    return sorted(k for k in sys.modules if k == "vtop" or k == "vpkg" or k.startswith("vpkg."))


def reset():
    for k in vendored_modules():
        del sys.modules[k]
    sys._olverif_import_log = []
    import importlib
    importlib.invalidate_caches()


def run_one(text, mode, relative):
    if FIX not in sys.path:
        sys.path.insert(0, FIX)
    reset()
    extra = {}
    if relative:
        extra = {"__name__": "vpkg.sub.prog", "__package__": "vpkg.sub"}
    obs = run_code(text, mode, Kit(), extra_ns=extra)
    obs["import_log"] = list(sys._olverif_import_log)
    obs["sys_modules"] = vendored_modules()
    reset()
    return obs


def diffs_of(o, c):
    d = compare_obs(o, c)
    if c["ok"]:
        if o["import_log"] != c["import_log"]:
            d.append("import log differs: %r vs %r" % (o["import_log"], c["import_log"]))
        if o["sys_modules"] != c["sys_modules"]:
            d.append("sys.modules delta differs: %r vs %r" % (o["sys_modules"], c["sys_modules"]))
    return d


def check_case(part, stmt, names, tag, where, relative, cfgs):
    src = program(stmt, names, where)
    try:
        compile(src, "<import>", "exec")
    except SyntaxError:
        part["discarded"]["form-not-legal-in-placement"] += 1    # a future statement below the top
        return
    o = run_one(src, "exec", relative)
    if not o["ok"]:
        raise env.HarnessError("import program raises in the original: %s %s\n%s" % (o["err"], o["errmsg"], src))
    part["evaluations"] += 1
    part["classes"]["placement:" + where] += 1
    part["classes"]["form:" + tag] += 1
    if tag not in ("plain", "plain-alias", "from-attr"):
        part["nontrivial"].add(key_hash(stmt, where))
    for cfg in cfgs:
        try:
            text = env.convert(src, cfg, 0)
        except BaseException as e:
            d = ["conversion raised %s: %s" % (type(e).__name__, str(e)[:200])]
        else:
            c = run_one(text, "eval", relative)
            d = diffs_of(o, c)
        if d:
            part["violations"].append({
                "payload": {"kind": "import", "stmt": stmt, "names": names, "tag": tag, "where": where,
                            "relative": relative, "cfg": list(cfg)},
                "diffs": d[:5], "what": "import differs: %r in %s placement (%s)" % (stmt, where, env.cfg_name(cfg))})
            return


def _shard(item):
    idx, nshards = item
    part = new_part()
    cases = [(s, n, t, w, False) for (s, n, t) in ABS for w in PLACEMENTS]
    cases += [(s, n, t, w, True) for (s, n, t) in REL for w in PLACEMENTS]
    for k in range(idx, len(cases), nshards):
        s, n, t, w, rel = cases[k]
        check_case(part, s, n, t, w, rel, env.ALL_CFGS)
    if idx == 0:
        part["samples"].append(program(REL[8][0], REL[8][1], "captured"))
    return part


def run(report):
    report.rule = RULE
    if not os.path.isdir(os.path.join(FIX, "vpkg")):
        raise env.HarnessError("vendored package fixtures/vpkg not found")
    ns = env.NPROC
    for part in env.pmap(_shard, [(i, ns) for i in range(ns)]):
        report.absorb(part)
    report.exhaustive = True
    report.extra["forms"] = len(ABS) + len(REL)
    report.assumptions += ["the vendored modules log their own import into sys._olverif_import_log",
                           "relative forms run with __name__='vpkg.sub.prog', __package__='vpkg.sub'"]


def replay(payload):
    if payload.get("kind") != "import":
        from ..oracle import replay_program
        return replay_program(payload)
    part = new_part()
    check_case(part, payload["stmt"], payload["names"], payload["tag"], payload["where"], payload["relative"],
               [tuple(payload["cfg"])])
    out = []
    for v in part["violations"]:
        out += v["diffs"]
    return out
