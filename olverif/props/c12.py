"""C12 - classes keep their members, bases, metaclass, method kinds and super().

Domain   G-CLASS: {no base, one, two, inherited, diamond, base-with-metaclass} x {implicit,
         explicit metaclass} x {no keywords, keywords consumed by __init_subclass__} x
         {0, 1, 2, replacing} decorators x member sets x placement {module, function,
         class-in-class, class-in-class-in-function, global-declared in function, captured by a
         closure}. Skeleton product x member sets of size <= 2 enumerated; larger sets drawn.
Oracle   inspected BY THE HARNESS on the class object found in the resulting namespace: MRO,
         bases, metaclass, canonical user attributes, results of a fixed call script
         (instantiate, call every member on instance / class / a harness-made subclass, property
         get/set), and where the name is bound.
"""
import itertools

from hypothesis import strategies as st

from .. import env, hyp
from ..kit import run_code, canon, canon_class
from ..runner import new_part, key_hash, open_switches

RULE = ("class skeletons = bases {none, one, two, inherited, diamond, base with metaclass} x metaclass "
        "{implicit, explicit} x keywords {none, consumed by __init_subclass__} x decorators {0, 1, 2 "
        "order-sensitive, 1 returning a different object} x placement {module, function, class in "
        "class, class in class in function, global-declared in a function, captured by a closure, "
        "after an earlier class statement of the same name in the same module / function scope, as "
        "the taken alternative of an if/else whose other branch defines the same name}, "
        "each with every member set of size 1 and 2 from 29 member kinds (data, computed, method, "
        "static/class method, property+setter, zero- and two-argument super, __init__, decorated and "
        "plain __init_subclass__, nested class, if/while/for in the body, comprehension, lambda, "
        "closure over a module global, private-looking single underscore); size-3 sets drawn by "
        "Hypothesis. Non-trivial: >= 1 base or metaclass and >= 2 member kinds; distinct by skeleton.")

PRE = '''
REG = []
def numbered(n):
    def d(c):
        c.number = n
        return c
    return d
class M0(type):
    def __call__(cls, *a, **k):
        r = super().__call__(*a, **k)
        r.made_by = 'M0'
        return r
class G0:
    gv = 'g0'
    def who(self):
        return 'G0'
    def __init_subclass__(cls, tag=None, **kw):
        super().__init_subclass__(**kw)
        cls.tag = tag
        REG.append(cls.__name__)
class G1:
    def who(self):
        return 'G1'
    def other(self):
        return 'o1'
class D1(G0):
    def who(self):
        return 'D1>' + super().who()
class D2(G0):
    def who(self):
        return 'D2>' + super().who()
class WM(metaclass=M0):
    pass
def dec1(c):
    c.d1 = 'yes'
    return c
def dec2(c):
    c.order = getattr(c, 'd1', 'no')
    return c
def dec3(c):
    return type(c)(c.__name__, (c,), {'wrapped': True})
def fdeco(fn):
    def w(*a, **k):
        return fn(*a, **k)
    return w
def swap_dec1():
    global dec1
    dec1 = dec2
    return G1
GLOB = 41
PV = 'global-pv'
'''
BASES = {"none": "", "one": "G1", "two": "G0, G1", "inh": "D1", "diamond": "D1, D2", "wm": "WM",
         # a base EXPRESSION that rebinds the decorator name dec1 while the class statement runs
         "swap": "swap_dec1()"}
META = {"implicit": "", "explicit": "metaclass=M0"}
KW = {"nokw": "", "kw": "tag='T'"}
DECO = {"0": "", "1": "@dec1\n", "2": "@dec2\n@dec1\n", "3": "@dec3\n", "13": "@dec1\n@dec3\n",
        # a decorator EXPRESSION whose value depends on when it is evaluated (before the class exists)
        "n": "@numbered(len(REG))\n", "n1": "@dec1\n@numbered(len(REG))\n"}
MEMBERS = {
    "data": "    x = 1\n",
    "computed": "    x = 2\n    y = x * 3\n",
    "method": "    def m(self):\n        return ('m', self.__class__.__name__)\n",
    "static": "    @staticmethod\n    def s(a):\n        return a + 1\n",
    "clsm": "    @classmethod\n    def c(cls):\n        return cls.__name__\n",
    "prop": "    @property\n    def p(self):\n        return getattr(self, '_p', 0)\n    @p.setter\n    def p(self, v):\n        self._p = v * 2\n",
    "super0": "    def who(self):\n        return 'K>' + super().who()\n",
    "super2": "    def who(self):\n        return 'K2>' + super(K, self).who()\n",
    "super_nested": "    def who(self):\n        def inner():\n            return super(K, self).who()\n        def inner0(me):\n            return super().who()\n        return 'KN>' + inner() + inner0(self)\n",
    "init": "    def __init__(self):\n        self.i = 5\n",
    # super() / __class__ TWO functions deep inside a method
    "super_nested2": "    def who(self):\n        def lvl1():\n            def lvl2():\n                return super(K, self).who() + '|' + __class__.__name__\n            def lvl2b(me):\n                return super().who()\n            return lvl2() + lvl2b(self)\n        return 'K2N>' + lvl1()\n",
    # the class binds names that lambdas / comprehensions of its body read from OUTSIDE (they do not see class members)
    "shadow_in_lambda": "    GLOB = 'member'\n    PV = 'member-pv'\n    viacomp = [(GLOB, PV) for _e in range(1)]\n    lm = lambda self: (GLOB, PV)\n    viagen = list((PV, GLOB) for _e in range(1))\n",
    "isc": "    def __init_subclass__(cls, **kw):\n        super().__init_subclass__(**kw)\n        cls.sub = True\n",
    "isc_deco": "    @fdeco\n    def __init_subclass__(cls, **kw):\n        super().__init_subclass__(**kw)\n        cls.sub = 'decorated'\n",
    "nested": "    class In:\n        z = 9\n        def f(self):\n            return 'in'\n",
    "ifwhile": "    n = 0\n    while n < 3:\n        n += 1\n    if n == 3:\n        w = 'three'\n    else:\n        w = 'other'\n",
    "comp": "    xs = [1, 2, 3]\n    ys = [e * 2 for e in xs]\n",
    "lam": "    lm = lambda self, q=2: q * 3\n",
    "forloop": "    acc = []\n    for e in (1, 2):\n        acc.append(e)\n",
    "globuse": "    gg = GLOB + 1\n    def useg(self):\n        return GLOB + self.gg\n",
    # reads a parameter of the enclosing function (a module global in the other placements)
    "paramuse": "    pu = PV\n    pu2 = [PV for _e in range(1)]\n",
    # reads a global before binding the same name in the class body (LOAD_NAME falls back to the
    # global even when the enclosing function has a local of that spelling)
    "readbefore": "    GLOB = GLOB + 1\n    PV = PV\n",
    # zero-argument super() and __class__ used ONLY by lambdas of the class body
    "lam_super": "    who = lambda self: 'L>' + super().who()\n",
    "lam_class": "    kind = lambda self: __class__.__name__\n    kind2 = staticmethod(lambda: __class__.__mro__[0].__name__)\n",
    # members holding FALSY values (None, 0, [], False, '') read again in the class body: bound is bound
    "falsy_data": "    x = 0\n    nn = None\n    ee = []\n    ff = False\n    ss = ''\n    y = x\n    nm = nn\n    em = ee\n    fm = ff\n    sm = [ss for _e in range(1)] + [ss]\n",
    # ... also for names the body reads BEFORE binding them (the lowering then tests whether the member exists)
    "readbefore_falsy": "    GLOB = GLOB and None\n    again = GLOB\n    PV = PV if False else 0\n    pv2 = PV\n    both = [GLOB, PV]\n",
    # a member bound by a statement that does NOT run (untaken branch, zero-iteration loop), read by a later one
    "cond_member": "    if GLOB == 'never':\n        PV = 'class'\n        GLOB = 'class'\n        cm = 1\n    lbl = PV\n    lbl2 = [GLOB]\n    for PV in []:\n        pass\n    lbl3 = PV\n    while False:\n        GLOB = 0\n    lbl4 = GLOB\n",
    # an f-string in the class body that reads members (a subscript with a string key after lowering)
    "fstr": "    lbl = 'v'\n    wid = 4\n    txt = f\"{lbl}:{lbl!r:>{wid}}|{'q'}\"\n    def show(self):\n        return f'{self.lbl}-{self.txt}'\n",
    "deco_method": "    @fdeco\n    def dm(self, a=1):\n        return a * 2\n",
}
PLACEMENTS = ("module", "func", "cls", "cls_in_func", "global_decl", "closure",
              # a second class statement of the same name in the same scope
              "redefined", "redefined_in_func", "alternative",
              # two class levels below a function whose variables live in its dictionary of captured variables
              "cls_in_cls_in_func", "below_nonlocal")
EARLIER = ("class K:\n    earlier = 1\n    def gone(self):\n        return 'gone'\n    def who(self):\n        return 'earlier'\n"
           "    class In:\n        q = 0\n    class Extra:\n        pass")


def place(cls_src, where):
    def ind(s, n):
        return "\n".join("    " * n + l for l in s.split("\n"))
    if where == "module":
        return cls_src + "\nRES = K\nWHERE = 'K' in globals()\n"
    if where == "func":
        return ("def mk(PV='param-pv'):\n    GLOB = 'local-shadow'\n" + ind(cls_src, 1)
                + "\n    return K\nRES = mk()\nLEAK = 'K' in globals()\n")
    if where == "cls":
        return "class Outer:\n" + ind(cls_src, 1) + "\nRES = Outer.K\nWHERE = 'K' in vars(Outer)\nLEAK = 'K' in globals()\n"
    if where == "cls_in_func":
        return ("def mk(PV='param-pv'):\n    GLOB = 'local-shadow'\n    class Outer:\n" + ind(cls_src, 2)
                + "\n    return Outer.K\nRES = mk()\nLEAK = 'K' in globals()\n")
    if where == "redefined":
        return EARLIER + "\nFIRST = K\n" + cls_src + "\nRES = K\nWHERE = FIRST is not K and FIRST.earlier\n"
    if where == "redefined_in_func":
        return ("def mk(PV='param-pv'):\n    GLOB = 'local-shadow'\n" + ind(EARLIER, 1) + "\n    first = K\n" + ind(cls_src, 1)
                + "\n    return K, first\nRES, FIRST = mk()\nLEAK = 'K' in globals()\nWHERE = FIRST().gone()\n")
    if where == "alternative":
        return ("if not GLOB:\n" + ind(EARLIER, 1) + "\nelse:\n" + ind(cls_src, 1) + "\nRES = K\nWHERE = 'K' in globals()\n")
    if where == "cls_in_cls_in_func":
        return ("def mk(PV='param-pv'):\n    GLOB = 'local-shadow'\n    def bump():\n        nonlocal PV, GLOB\n        PV = PV + '!'\n        GLOB = GLOB + '!'\n    bump()\n"
                "    class O1:\n        class O2:\n" + ind(cls_src, 3) + "\n    return O1.O2.K\nRES = mk()\nLEAK = 'K' in globals()\n")
    if where == "below_nonlocal":
        # the class statement sits in a function that declares the names nonlocal and assigns them
        return ("def mk(PV='param-pv'):\n    GLOB = 'local-shadow'\n    def mid():\n        nonlocal PV, GLOB\n        PV = PV + '!'\n        GLOB = 'rebound'\n"
                + ind(cls_src, 2) + "\n        return K\n    return mid()\nRES = mk()\nLEAK = 'K' in globals()\n")
    if where == "global_decl":
        return "def mk():\n    global K\n" + ind(cls_src, 1) + "\nmk()\nRES = K\n"
    if where == "closure":
        return "def mk():\n" + ind(cls_src, 1) + "\n    def get():\n        return K\n    return get\nRES = mk()()\nLEAK = 'K' in globals()\n"
    raise ValueError(where)


def class_source(bk, mk, kk, dk, ms):
    hdr = ", ".join(x for x in (BASES[bk], META[mk], KW[kk]) if x)
    body = "".join(MEMBERS[x] for x in ms) or "    pass\n"
    return ("%sclass K(%s):\n%s" % (DECO[dk], hdr, body) if hdr else "%sclass K:\n%s" % (DECO[dk], body)).rstrip("\n")


def inspect_cls(ns):
    K = ns.get("RES")
    out = {"where": canon(ns.get("WHERE")), "leak": canon(ns.get("LEAK"))}
    if not isinstance(K, type):
        out["res"] = canon(K)
        return out
    out["class"] = canon_class(K)
    out["name"] = K.__name__
    calls = {}
    try:
        inst = K()
    except Exception as e:
        out["inst"] = "EXC " + type(e).__name__
        return out
    for name in ("m", "s", "c", "who", "other", "lm", "useg", "dm", "kind", "kind2"):
        for holder, tag in ((inst, "i"), (K, "c")):
            if hasattr(holder, name):
                args = (1,) if name == "s" else ()
                if name == "kind2":
                    args = ()
                elif tag == "c" and name in ("m", "who", "other", "lm", "useg", "dm", "kind"):
                    args = (inst,) + args
                try:
                    calls[tag + "_" + name] = canon(getattr(holder, name)(*args))
                except Exception as e:
                    calls[tag + "_" + name] = "EXC " + type(e).__name__
    if hasattr(K, "p"):
        try:
            inst.p = 4
            calls["p"] = canon(inst.p)
            calls["p_kind"] = type(vars(K).get("p", K.__mro__[1].__dict__.get("p"))).__name__
        except Exception as e:
            calls["p"] = "EXC " + type(e).__name__
    for a in ("i", "made_by", "tag", "gv", "d1", "order", "x", "y", "n", "w", "ys", "acc", "sub", "wrapped", "gg",
              "pu", "pu2", "GLOB", "PV"):
        if hasattr(inst, a):
            calls["a_" + a] = canon(getattr(inst, a))
    if hasattr(K, "In"):
        calls["In"] = (canon(K.In.z), canon(K.In().f()), K.In.__name__)
    for k in ("s", "c", "m"):
        if k in vars(K):
            calls["kind_" + k] = type(vars(K)[k]).__name__
    try:
        Sub = type(K)("Sub", (K,), {})
        calls["sub"] = ([c.__name__ for c in Sub.__mro__], canon(getattr(Sub, "sub", None)), canon(getattr(Sub, "tag", "-")))
        if hasattr(Sub, "c"):
            calls["sub_c"] = canon(Sub.c())
        if hasattr(Sub, "who"):
            calls["sub_who"] = canon(Sub().who())
    except Exception as e:
        calls["sub"] = "EXC " + type(e).__name__
    try:
        Sub2 = type(K)("Sub2", (K,), {}, tag="S2")
        calls["sub2"] = canon(getattr(Sub2, "tag", "-"))
    except Exception as e:
        calls["sub2"] = "EXC " + type(e).__name__
    out["calls"] = calls
    return out


def _quiet_hook(*a):
    pass


def check_case(part, case, cfgs):
    import os
    import sys
    if not getattr(sys, "_olverif_quiet", False):
        # deep recursion inside the call script (identical on both sides) makes the interpreter
        # print "Exception ignored ..." lines from worker processes: not our output
        sys._olverif_quiet = True
        sys.unraisablehook = _quiet_hook
        try:
            sys.stderr = open(os.devnull, "w")
        except OSError:
            pass
    bk, mk, kk, dk, ms, where = case
    src = PRE + place(class_source(bk, mk, kk, dk, ms), where)
    try:
        compile(src, "<cls>", "exec")
    except SyntaxError as e:
        raise env.HarnessError("class program does not compile: %s\n%s" % (e, src))
    o = run_code(src, "exec", want_globals=False)
    if not o["ok"]:
        part["discarded"]["original-raises:%s" % o["err"]] += 1
        return
    try:
        ref = inspect_cls(o["ns"])
    except BaseException as e:
        raise env.HarnessError("inspection of the original failed: %r" % (e,))
    part["evaluations"] += 1
    part["classes"]["placement:" + where] += 1
    if (bk != "none" or mk != "implicit") and len(ms) >= 2:
        part["nontrivial"].add(key_hash(case))
    for cfg in cfgs:
        try:
            text = env.convert(src, cfg, 0)
        except BaseException as e:
            diffs = ["conversion raised %s: %s" % (type(e).__name__, str(e)[:200])]
        else:
            c = run_code(text, "eval", want_globals=False, filename="<converted>")
            if not c["ok"]:
                diffs = ["converted program raised %s: %s" % (c["err"], c["errmsg"])]
            else:
                try:
                    got = inspect_cls(c["ns"])
                except BaseException as e:
                    got = {"inspect": "EXC %r" % (e,)}
                diffs = []
                for k in sorted(set(ref) | set(got)):
                    if ref.get(k) != got.get(k):
                        if k == "calls":
                            for ck in sorted(set(ref[k]) | set(got.get(k, {}))):
                                if ref[k].get(ck) != got.get(k, {}).get(ck):
                                    diffs.append("call script %s: %r vs %r" % (ck, ref[k].get(ck), got.get(k, {}).get(ck)))
                        else:
                            diffs.append("%s: %r vs %r" % (k, ref.get(k), got.get(k)))
                if o["stdout"] != c["stdout"]:
                    diffs.append("stdout differs")
        if diffs:
            part["violations"].append({
                "payload": {"kind": "class", "case": [bk, mk, kk, dk, list(ms), where], "cfg": list(cfg)},
                "diffs": diffs[:5],
                "what": "class differs: bases=%s meta=%s kw=%s deco=%s members=%s placement=%s (%s)" % (
                    bk, mk, kk, dk, "+".join(ms), where, env.cfg_name(cfg))})
            return


def all_cases(max_set=2):
    msets = [()] + [(m,) for m in MEMBERS] + (list(itertools.combinations(MEMBERS, 2)) if max_set >= 2 else [])
    for bk in BASES:
        for mk in META:
            for kk in KW:
                if kk == "kw" and bk in ("none", "one", "wm", "swap"):
                    continue   # nobody consumes the keyword: the original raises TypeError
                for dk in DECO:
                    for ms in msets:
                        for where in PLACEMENTS:
                            yield (bk, mk, kk, dk, ms, where)


def _cfgs(i, all8):
    if all8:
        return env.ALL_CFGS
    return [env.ALL_CFGS[i % 8], env.ALL_CFGS[(i + 5) % 8]]


def _sweep_shard(item):
    idx, nshards, stride, all8 = item[:4]
    seed = item[4] if len(item) > 4 else 0
    part = new_part()
    for i, case in enumerate(all_cases()):
        if i % nshards != idx:
            continue
        if stride > 1 and (i // nshards + seed) % stride != 0 and len(case[4]) == 2:
            continue   # a stride of the size-2 sets (which residue: by the seed) ...
        if stride > 3 and len(case[4]) < 2 and (i // nshards + seed) % 2 != 0:
            continue   # ... and, in the quick tier, every other cell of the size-0/1 sets
        if len(part["violations"]) >= 3:
            break
        check_case(part, case, _cfgs(i, all8))
    if idx == 0:
        part["samples"].append(PRE[-40:] + place(class_source("diamond", "explicit", "kw", "2", ("super0", "clsm")), "cls_in_func"))
    return part


def _drawn_shard(item):
    seed, n = item
    part = new_part()
    strat = st.tuples(st.sampled_from(sorted(BASES)), st.sampled_from(sorted(META)), st.sampled_from(sorted(KW)),
                      st.sampled_from(sorted(DECO)),
                      st.lists(st.sampled_from(sorted(MEMBERS)), min_size=3, max_size=5, unique=True).map(tuple),
                      st.sampled_from(PLACEMENTS))

    def body(case):
        sub = new_part()
        check_case(sub, case, env.ALL_CFGS)
        part["evaluations"] += sub["evaluations"]
        part["nontrivial"] |= sub["nontrivial"]
        part["classes"].update(sub["classes"])
        part["discarded"].update(sub["discarded"])
        return sub["violations"][0] if sub["violations"] else None

    calls, v = hyp.search(strat, body, seed, n)
    if v:
        part["violations"].append(v)
    return part


def run(report):
    quick = report.tier == "quick"
    report.rule = RULE
    ns = env.NPROC * 4
    # thorough: all size-0/1 sets and every third size-2 set (which third: by the seed); the complete product
    # (about 1.2 million cells x 8 configurations) takes well over an hour
    items = [(_sweep_shard, (i, ns, 20 if quick else 3, not quick, report.seed)) for i in range(ns)]
    items += [(_drawn_shard, (env.sub_seed(report.seed, "C12", i), 40 if quick else 1500)) for i in range(env.NPROC)]
    # host dimension: a seeded stride of the skeleton product as whole programs (stdout, canonical
    # globals incl. the class itself) under the other host interpreters
    from .. import hosts
    others = hosts.available_other_hosts()
    if others:
        stride = 211 if quick else 23
        hcases = []
        for i, case in enumerate(all_cases()):
            if i % stride != report.seed % stride:
                continue
            bk, mk, kk, dk, ms, where = case
            hcases.append((PRE + place(class_source(bk, mk, kk, dk, ms), where), [env.ALL_CFGS[i % 8]]))
        # every member kind alone, under both unparsers, on every host
        for j, m in enumerate(sorted(MEMBERS)):
            for where in ("module", "func", "cls_in_func"):
                hcases.append((PRE + place(class_source("one", "implicit", "nokw", "0", (m,)), where),
                               [("oneliner", "list", "if_expr"), ("ast.unparse", "chain_call", "short_circuit")]))
        per_host = max(1, env.NPROC // len(others))
        for h in others:
            for k in range(per_host):
                items.append((hosts.host_shard, (h, hcases[k::per_host], {}, "class program differs")))
        report.extra["other_hosts"] = others
        report.extra["host_cases_per_host"] = len(hcases)
    for part in env.pmap(_callf, items):
        report.absorb(part)
    report.exhaustive = False
    report.notes.append("thorough: all member sets of size <= 1 and every third size-2 set (which third: by the seed) over the "
                        "whole skeleton product; quick: half of the size-0/1 sets (which half: by the seed) and every 20th size-2 set")
    for s in sorted(open_switches('C12')):
        report.exclusions.setdefault(s, 0)
    report.assumptions += ["class-creation hooks that look at the namespace (__prepare__, metaclass __new__ reading the dict, "
                           "__set_name__, __slots__) and class metadata are outside the property and are not generated"]


def _callf(item):
    f, arg = item
    return f(arg)


def replay(payload):
    if payload.get("kind") != "class":
        from ..oracle import replay_program
        return replay_program(payload)
    c = payload["case"]
    case = (c[0], c[1], c[2], c[3], tuple(c[4]), c[5])
    part = new_part()
    check_case(part, case, [tuple(payload["cfg"])])
    out = []
    for v in part["violations"]:
        out += v["diffs"]
    return out
