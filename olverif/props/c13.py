"""C13 - assignment, destructuring and augmented assignment store what Python stores.

Domain   (a) target patterns (tuple/list trees, leaves name/attribute/subscript/slice, star at
             every position or absent) x source length min..min+3 x source kind
             {list, tuple, str, range, generator, dict view, one-shot iterator};
         (b) 13 augmented operators x {name, attribute, subscript, slice} targets x operand kinds
             (int, float, str, list, tuple, set, dict, bool, user classes with/without in-place
             method, in-place returning a new object, reflected right operand) x placement
             {global, local, nonlocal, global-declared, class}; every target has an alias.
Oracle   logged canonical value of every target and alias after each statement, the stores
         seen by the logging objects, the whole log, final globals.
"""
import itertools

from hypothesis import strategies as st

from .. import env, hyp
from ..kit import run_code
from ..oracle import check_program, program_payload, replay_program, reduce_violation
from ..runner import new_part, key_hash, open_switches

RULE = ("(a) all target patterns of depth 1 (arity 1..3, leaf kinds name/attribute/subscript/slice, "
        "star at every position or absent) and depth 2 (one nested pattern) x every admissible source "
        "length x every admissible source kind, enumerated completely (placement module / function / "
        "class by rotation, and once more inside one of 16 further containers: closure, method, loop "
        "body, branch, class in function, ...); depth-3 patterns drawn by "
        "Hypothesis; (b) the complete operator x target x operand-kind x placement matrix of "
        "augmented assignment, type-incompatible cells (original raises) discarded and counted; (c) stores "
        "that are the only effect of a taken if-branch (28 falsy and truthy values x the binding forms of "
        "the falsy-body family x 6 shapes incl. class body, declared global, nonlocal) x 8 configurations; "
        "(d) augmented assignment on a name whose textually preceding assignment did not run or was "
        "overtaken (untaken branch, zero-iteration loop, walrus / loop target / nested function in between): "
        "7 run-time kinds x 11 written values x operators x 5 shapes x 4 placements. "
        "Each case under the 4 semantic configurations with alternating unparser (matrix) / all 8 "
        "(drawn). Non-trivial: the pattern has a star or nesting, or the operand type has an "
        "in-place method / is a user class; distinct by case source.")

PRE = "o = OBJ('o')\nb = BOX('b', {})\nl = BOX('l', [0, 1, 2, 3, 4, 5])\nt = KEYS('t')\n"
LEAVES = ("name", "attr", "sub", "slice", "tupidx")
TUPIDX = ("t[0, 1:3]", "t[..., 1:]", "t[1:2, 0]", "t[::2,]", "t[0, 1, 2:]", "t[:, :, 3]", "t[(1, 2)]", "t[1:2, ...]")
SLICES = ("l[1:2]", "l[:1]", "l[4:]", "l[2:2]")


class Ctx(object):
    def __init__(self):
        self.n = 0
        self.names = []

    def leaf(self, kind):
        self.n += 1
        if kind == "name":
            self.names.append("x%d" % self.n)
            return "x%d" % self.n
        if kind == "attr":
            return "o.a%d" % self.n
        if kind == "sub":
            return "b['k%d']" % self.n
        if kind == "tupidx":
            return TUPIDX[self.n % len(TUPIDX)]
        return SLICES[self.n % len(SLICES)]


def render_pattern(shape, ctx, bracket):
    """shape: list of items; item = leaf kind str | ('*', leafkind) | ('N', subshape)
    returns (target source, list of element-source makers)"""
    parts = []
    for it in shape:
        if isinstance(it, str):
            parts.append(ctx.leaf(it))
        elif it[0] == "*":
            t = ctx.leaf(it[1] if it[1] != "slice" else "name")
            parts.append("*" + t)
        else:
            parts.append(render_pattern(it[1], ctx, "[]" if bracket == "()" else "()"))
    body = ", ".join(parts)
    if bracket == "()":
        return "(" + body + ("," if len(parts) == 1 else "") + ")"
    return "[" + body + "]"


def element_sources(shape, extra, counter, depth=0):
    """element source strings for one level; `extra` = number of elements the star takes"""
    out = []
    for it in shape:
        if isinstance(it, str):
            counter[0] += 1
            out.append("[%d]" % counter[0] if it == "slice" else str(counter[0]))
        elif it[0] == "*":
            for _ in range(extra):
                counter[0] += 1
                out.append(str(counter[0]))
        else:
            sub = element_sources(it[1], 1, counter, depth + 1)
            j = ", ".join(sub)
            # nested sources rotate through every iterable kind, one-shot ones included
            k = counter[0] % 6
            flat = all(isinstance(x, str) and x != "slice" or (not isinstance(x, str) and x[0] == "*") for x in it[1])
            if k == 0:
                out.append("[%s]" % j)
            elif k == 1:
                out.append("(%s%s)" % (j, "," if len(sub) == 1 else ""))
            elif k == 2:
                out.append("(v for v in [%s])" % j)
            elif k == 3:
                out.append("iter([%s])" % j)
            elif k == 4:
                out.append("SEQ('n%d', [%s])" % (counter[0], j))
            else:
                out.append("{%s}.keys()" % ", ".join("%s: 0" % e for e in sub) if flat else "[%s]" % j)
    return out


def source_kinds(shape, elems):
    """admissible top-level renderings of the source"""
    flat_scalar = all(isinstance(it, str) and it != "slice" or (not isinstance(it, str) and it[0] == "*") for it in shape)
    joined = ", ".join(elems)
    kinds = {"list": "[%s]" % joined, "tuple": "(%s%s)" % (joined, "," if len(elems) == 1 else ""),
             "generator": "(v for v in [%s])" % joined, "oneshot": "SEQ('s', [%s])" % joined}
    if flat_scalar:
        n = len(elems)
        kinds["range"] = "range(%d)" % n
        kinds["str"] = repr("abcdefghij"[:n])
        kinds["dictview"] = "{%s}.keys()" % ", ".join("%s: 0" % e for e in elems)
        kinds["dictitems"] = None
    if not elems:
        kinds["str"] = "''"
    return {k: v for k, v in kinds.items() if v is not None}


def pattern_cases(depth2=True):
    """yields (tag, statement source, names to log, nontrivial)"""
    shapes = []
    for n in (1, 2, 3):
        for leaves in itertools.product(LEAVES, repeat=n):
            shapes.append(list(leaves))
            for si in range(n):
                sh = list(leaves)
                sh[si] = ("*", leaves[si])
                shapes.append(sh)
    if depth2:
        inner = [["name"], ["name", "attr"], [("*", "name"), "name"], ["sub", ("*", "name")], ["name", ("*", "attr"), "slice"]]
        for n in (1, 2, 3):
            for pos in range(n):
                for sub in inner:
                    for star in (None,) + tuple(i for i in range(n) if i != pos):
                        for base in ("name", "attr"):
                            sh = [base] * n
                            sh[pos] = ("N", sub)
                            if star is not None:
                                sh[star] = ("*", "name")
                            shapes.append(sh)
    for sh in shapes:
        has_star = any(not isinstance(it, str) and it[0] == "*" for it in sh)
        nested = any(not isinstance(it, str) and it[0] == "N" for it in sh)
        for extra in ((0, 1, 2, 3) if has_star else (1,)):
            for bracket in ("()", "[]"):
                ctx = Ctx()
                tsrc = render_pattern(sh, ctx, bracket)
                elems = element_sources(sh, extra, [10])
                for kind, ssrc in source_kinds(sh, elems).items():
                    if bracket == "[]" and kind not in ("list", "oneshot", "str"):
                        continue   # the bracket style cannot interact with the source kind
                    stmt = "%s = %s" % (tsrc, ssrc)
                    yield ("pat", stmt, list(ctx.names), has_star or nested)


CHAINED = [
    ("pair = (1, 2)", "pair, other = saved = pair", ["pair", "other", "saved"]),
    ("pair = [1, 2]", "(pair, other) = saved = again = pair", ["pair", "other", "saved", "again"]),
    ("v = [3, 4]", "saved = v, w = v", ["saved", "v", "w"]),
    ("v = (5, (6, 7))", "a, (v, c) = keep = v", ["a", "v", "c", "keep"]),
    ("v = [1, 2, 3]", "*v, last = keep = v", ["v", "last", "keep"]),
    ("v = 7", "o.a1 = v = keep = v", ["v", "keep"]),
    ("v = 'k'", "b[v] = v = keep = v", ["v", "keep"]),
    ("v = [0, 1]", "v[0], v = keep = v", ["v", "keep"]),
    ("k = 1", "l[k:], k = keep = [9], 2", ["k", "keep"]),
    ("x = None", "x = y = z = None\nL('same', x is y)", ["x", "y", "z"]),
    ("x = 10", "x = y = x + 1", ["x", "y"]),
    ("tt = (1, 2)", "tt = u, w = tt", ["tt", "u", "w"]),
    # literal values: every target of a chained assignment is the SAME object
    ("pass", "a = b2 = []\na.append(1)\nL('same', a is b2)", ["a", "b2"]),
    ("pass", "a = b2 = c2 = [0, 0]\nb2[0] = 5\nL('same', a is b2, b2 is c2)", ["a", "b2", "c2"]),
    ("pass", "a = o.a1 = b['k'] = {}\na['q'] = 1\nL('same', a is o.a1, a is b['k'])", ["a"]),
    ("pass", "(a, b2) = c2 = [1, 2]\n[d2, *e2] = f2 = g2 = (3, 4, 5)\nL('same', f2 is g2)", ["a", "b2", "c2", "d2", "e2", "f2", "g2"]),
    ("pass", "a = b2 = (1, [2])\na[1].append(3)\nL('same', a is b2)", ["a", "b2"]),
    ("pass", "a = b2 = 'abc'\nc2 = d2 = 10 ** 30\nL('same', a is b2, c2 is d2)", ["a", "b2", "c2", "d2"]),
    # the value is computed before the container/index of the target are looked at
    ("st = [1, 2, 3]", "st[len(st) - 2] = st.pop()", ["st"]),
    ("st = [1, 2, 3]\nd2 = {2: 'x'}", "d2[len(st)] = st.pop()\nd2[st.pop()] = len(st)", ["st", "d2"]),
    ("st = [5, 6, 7]", "st[st.pop() - 7] += st.pop()", ["st"]),
    ("st = [[1], [2]]", "st[-1] = st.pop(0)", ["st"]),
    ("st = [1, 2, 3]", "st[0], st[len(st) - 1] = st.pop(), st.pop()", ["st"]),
    # augmented store: the current item is loaded BEFORE the right-hand side runs
    ("st = [1, 2, 3]", "st[-1] += st.pop()", ["st"]),
    ("st = [1, 2, 3]\nd2 = {'n': 1}", "d2['n'] -= d2.pop('n') + len(st)\nst[0] *= st.pop(0) + st.pop(0)", ["st", "d2"]),
    ("st = [4, 5]", "o.a1 = 10\no.a1 -= [setattr(o, 'a1', 100), 1][1]", ["st"]),
    ("class Acct:\n    def __init__(self):\n        self.balance = 10\n    def fee(self):\n        self.balance = 100\n        return 1\nac = Acct()", "ac.balance -= ac.fee()\nL('bal', ac.balance)", []),
    ("st = [[1], [2]]", "st[0] += st.pop()", ["st"]),
    ("pass", "t[0, 1:3] += 2\nt[..., 1:] = 5\nt[1:2, 0] *= 3\nt[::2,] = 7", []),
    # slices with a STEP inside a tuple index
    ("pass", "t[1:9:2, 0] = 4\nt[::2, 1:] += 2\nt[0, ::-1, 1:2:3] = 6\nt[1::2,] *= 2", []),
    # annotated stores to attribute / subscript targets: value first, then the target's object and index
    ("def mkq():\n    L('obj')\n    return o\ndef kq():\n    L('key')\n    return 'k'\ndef vq():\n    L('val')\n    return 5",
     "mkq().a1: int = vq()\nb[kq()]: int = vq()\nmkq().a2: 'str' = vq()", []),
]


def chained_cases():
    for init, stmt, names in CHAINED:
        for where in ("module", "function", "class"):
            show = "L('after', %s)" % ", ".join(names + ["o", "b", "l", "t"])
            body = init.split("\n") + stmt.split("\n") + [show]
            if where == "module":
                src = PRE + "\n".join(body) + "\n"
            elif where == "function":
                src = PRE + "def FF():\n" + "\n".join("    " + x for x in body) + "\nFF()\n"
            else:
                src = PRE + "class KK:\n" + "\n".join("    " + x for x in body) + "\n"
            yield ("chained", src, True)


def case_program(stmt, names, where):
    show = "L('after', %s)" % ", ".join(names + ["o", "b", "l", "t"])
    if where == "module":
        return PRE + stmt + "\n" + show + "\n"
    if where == "function":
        return PRE + "def FF():\n    %s\n    %s\nFF()\n" % (stmt, show)
    if where == "class":
        return PRE + "class KK:\n    %s\n    %s\n" % (stmt, show)
    if where.startswith("nest:"):
        from ..gen import nest
        return PRE + "\n".join(nest._nest(where[5:], 7, [stmt, show])) + "\n"
    raise ValueError(where)


def nest_placements():
    from ..gen import nest
    return ["nest:" + c for c in sorted(nest.CONTAINERS) if c not in ("module", "func", "class")]


# ------------------------------------------------------------------ (b) augmented assignment

OPS = ["+", "-", "*", "/", "//", "%", "**", "<<", ">>", "&", "|", "^", "@"]
OPERANDS = {
    "int": ("7", "3"), "float": ("7.5", "2.0"), "str": ("'ab'", "'c'"), "strmul": ("'ab'", "2"),
    "strfmt": ("'a%s'", "(1,)"), "list": ("[1, 2]", "[3]"), "listmul": ("[1]", "2"),
    "tuple": ("(1,)", "(2,)"), "set": ("{1, 2}", "{2, 3}"), "frozenset": ("frozenset({1})", "{1, 2}"),
    "dict": ("{'a': 1}", "{'b': 2}"), "bool": ("True", "False"), "bytes": ("b'a'", "b'b'"),
    "bytearray": ("bytearray(b'a')", "b'b'"), "complex": ("2j", "3"),
    "inplace_self": ("MK('inplace_self', 1)", "5"), "inplace_new": ("MK('inplace_new', 1)", "5"),
    "inplace_ni": ("MK('inplace_ni', 1)", "5"), "binary_only": ("MK('binary_only', 1)", "5"),
    "reflected": ("3", "MK('reflected', 4)"), "list_reflected": ("[1]", "MK('reflected', 4)"),
    "int_float": ("7", "2.5"), "list_tuple": ("[1]", "(2, 3)"), "list_str": ("[1]", "'ab'"),
}
USER_KINDS = ("inplace_self", "inplace_new", "inplace_ni", "binary_only", "reflected", "list_reflected")
HAS_INPLACE = ("list", "listmul", "set", "dict", "bytearray", "list_tuple", "list_str", "list_reflected") + USER_KINDS
TARGETS = ("name", "attr", "sub", "slice")
PLACEMENTS = ("global", "local", "class", "nonlocal", "global_decl")


def aug_program(op, a, b, target, where):
    stmt = {"name": "x %s= %s", "attr": "o.a %s= %s", "sub": "d['k'] %s= %s", "slice": "l2[1:2] %s= %s"}[target] % (op, b)
    init = {"name": ["x = %s" % a, "al = x"], "attr": ["o.a = %s" % a, "al = o.a"],
            "sub": ["d = {'k': %s}" % a, "al = d['k']"], "slice": ["l2 = [0, %s, 9]" % a, "al = l2"]}[target]
    show = {"name": "L('r', x, al, x is al)", "attr": "L('r', o.a, al, o.a is al)",
            "sub": "L('r', d['k'], al, d['k'] is al)", "slice": "L('r', l2, al, l2 is al)"}[target]
    pre = "o = OBJ('o')\n"
    if where == "global":
        return pre + "\n".join(init + [stmt, show]) + "\n"
    if where == "local":
        return pre + "def FF():\n" + "\n".join("    " + s for s in init + [stmt, show]) + "\nFF()\n"
    if where == "class":
        return pre + "class KK:\n" + "\n".join("    " + s for s in init + [stmt, show]) + "\n"
    if where == "nonlocal":
        var = {"name": "x", "attr": None, "sub": "d", "slice": "l2"}[target]
        decl = ["        nonlocal %s" % var] if target == "name" else []
        return pre + "def OUT():\n" + "\n".join("    " + s for s in init) + "\n    def IN():\n" + "\n".join(decl) \
            + ("\n" if decl else "") + "        " + stmt + "\n    IN()\n    " + show + "\n    return IN\nOUT()\n"
    if where == "global_decl":
        var = {"name": "x", "attr": "o", "sub": "d", "slice": "l2"}[target]
        return pre + "\n".join(init) + "\ndef FF():\n    global %s\n    %s\nFF()\n%s\n" % (var, stmt, show)
    raise ValueError(where)


def aug_cases():
    for op in OPS:
        for kind, (a, b) in OPERANDS.items():
            for target in TARGETS:
                for where in PLACEMENTS:
                    bb = b
                    if target == "slice" and kind not in ("list", "list_tuple", "list_str", "list_reflected"):
                        bb = "[%s]" % b if kind not in USER_KINDS else b
                        if op != "+":
                            continue   # a slice value is a list: only += / *= are meaningful
                    yield ("aug:%s:%s:%s:%s" % (op, kind, target, where), aug_program(op, a, bb, target, where),
                           kind in HAS_INPLACE, kind)


# ------------------------------------------------------------------ checking

def check_src(part, tag, src, nontrivial, cfgs, what):
    try:
        compile(src, "<c13>", "exec")
    except SyntaxError as e:
        raise env.HarnessError("generated case does not compile: %s\n%s" % (e, src))
    o = run_code(src, "exec")
    if not o["ok"]:
        part["discarded"]["original-raises (type-incompatible cell)"] += 1
        return
    part["evaluations"] += 1
    part["classes"][tag.split(":")[0]] += 1
    if nontrivial:
        part["nontrivial"].add(key_hash(src))
    status, failures, _ = check_program(src, cfgs, orig=o)
    if status == "fail":
        cfg, diffs, text = failures[0]
        if len(part["violations"]) < 4:
            part["violations"].append({"payload": program_payload(src, cfg), "diffs": diffs, "what": what})
        else:
            part["extra"]["more_failures"] = part["extra"].get("more_failures", 0) + 1


def _cfgs(i):
    u = env.UNPARSERS[i % 2]
    return [(u, w, s) for (w, s) in env.SEMANTIC_CFGS]


def _pattern_shard(item):
    idx, nshards, quick = item
    part = new_part()
    nests = nest_placements()
    for i, (tag, stmt, names, nt) in enumerate(pattern_cases()):
        if i % nshards != idx:
            continue
        where = ("module", "function", "class")[(i // nshards) % 3]
        cfgs = _cfgs(i) if not quick else _cfgs(i)[(i // 3) % 4:][:2]
        check_src(part, tag, case_program(stmt, names, where), nt, cfgs,
                  "destructuring stores differ: %s (%s)" % (stmt, where))
        # and once more inside one of the G-NEST containers (closure, method, loop body, branch, ...)
        where = nests[(i // nshards) % len(nests)]
        check_src(part, tag, case_program(stmt, names, where), nt, cfgs[:1],
                  "destructuring stores differ: %s (%s)" % (stmt, where))
    if idx == 0:
        for tag, src, nt in chained_cases():
            check_src(part, tag, src, nt, env.ALL_CFGS, "chained assignment stores differ")
    if idx == 0:
        part["samples"].append(case_program("(x1, *o.a2, [b['k3'], x4]) = SEQ('s', [11, 12, 13, (14, 15)])", ["x1", "x4"], "function"))
    return part


def _aug_shard(item):
    idx, nshards, switches = item
    part = new_part()
    for i, (tag, src, nt, kind) in enumerate(aug_cases()):
        if i % nshards != idx:
            continue
        sw = {"inplace_ni": "inplace-returns-notimplemented",
              "list_reflected": "sequence-inplace-with-reflected-operand"}.get(kind)
        if sw and sw in switches:
            part["exclusions"][sw] = part["exclusions"].get(sw, 0) + 1
            continue
        check_src(part, tag, src, nt, _cfgs(i), "augmented assignment differs: %s" % tag)
    if idx == 0:
        part["samples"].append(aug_program("+", "MK('inplace_new', 1)", "5", "name", "nonlocal"))
    return part


@st.composite
def deep_pattern(draw):
    def shape(depth):
        n = draw(st.integers(1, 3))
        sh = []
        star = draw(st.integers(-1, n - 1))
        for i in range(n):
            if i == star:
                sh.append(("*", draw(st.sampled_from(["name", "attr", "sub"]))))
            elif depth < 3 and draw(st.integers(0, 2)) == 0:
                sh.append(("N", shape(depth + 1)))
            else:
                sh.append(draw(st.sampled_from(LEAVES)))
        return sh

    sh = shape(1)
    extra = draw(st.integers(0, 3))
    ctx = Ctx()
    tsrc = render_pattern(sh, ctx, draw(st.sampled_from(["()", "[]"])))
    elems = element_sources(sh, extra, [10])
    kinds = source_kinds(sh, elems)
    kind = draw(st.sampled_from(sorted(kinds)))
    where = draw(st.sampled_from(["module", "function", "class"]))
    return "%s = %s" % (tsrc, kinds[kind]), list(ctx.names), where


def _deep_shard(item):
    seed, n = item
    part = new_part()

    def body(case):
        stmt, names, where = case
        sub = new_part()
        check_src(sub, "deep", case_program(stmt, names, where), True, env.ALL_CFGS,
                  "destructuring stores differ: %s (%s)" % (stmt, where))
        part["evaluations"] += sub["evaluations"]
        part["nontrivial"] |= sub["nontrivial"]
        part["classes"].update(sub["classes"])
        part["discarded"].update(sub["discarded"])
        return sub["violations"][0] if sub["violations"] else None

    calls, v = hyp.search(deep_pattern(), body, seed, n, key=lambda c: c[0] + c[2])
    if v:
        part["violations"].append(reduce_violation(v))
    return part


# ------------------------------------------------------------------ (d) what the name holds at RUN time

# an augmented assignment must work on what the name holds when it runs, not on what the textually
# preceding assignment wrote: that assignment may sit in an untaken branch, or the name is rebound
# in between by a walrus, a nested function, a loop target, a def
RUN_VALUES = {"int": ("3", "4"), "list": ("[1]", "[2]"), "str": ("'a'", "'b'"), "tuple": ("(1,)", "(2,)"),
              "set": ("{1}", "{2}"), "float": ("1.5", "2.0"), "user": ("MK('inplace_self', 1)", "5")}
TEXT_VALUES = ["[]", "[7]", "[e for e in range(2)]", "{}", "{1: 2}", "set()", "''", "0", "()", "None", "list()"]
OPS_BY_KIND = {"int": ("+=", "*=", "-=", "|="), "list": ("+=", "*="), "str": ("+=",), "tuple": ("+=",),
               "set": ("|=", "-=", "^="), "float": ("+=", "*="), "user": ("+=",)}


def run_time_cases():
    for kind, (val, operand) in sorted(RUN_VALUES.items()):
        for tv in TEXT_VALUES:
            for op in OPS_BY_KIND[kind]:
                b = operand if not (op == "*=" and kind == "list") else "2"
                shapes = {
                    "untaken-branch": "x = %s\nal = x\nif P(1, 0):\n    x = %s\nx %s %s\nL('r', x, al, x is al)\n" % (val, tv, op, b),
                    "zero-loop": "x = %s\nal = x\nfor q in P(1, []):\n    x = %s\nx %s %s\nL('r', x, al, x is al)\n" % (val, tv, op, b),
                    "walrus-between": "x = %s\nal = (x := %s)\nx %s %s\nL('r', x, al, x is al)\n" % (tv, val, op, b),
                    "loop-target-between": "x = %s\nfor x in [%s]:\n    pass\nal = x\nx %s %s\nL('r', x, al, x is al)\n" % (tv, val, op, b),
                    "taken-else": "if P(1, 0):\n    x = %s\nelse:\n    x = %s\nal = x\nx %s %s\nL('r', x, al, x is al)\n" % (tv, val, op, b),
                }
                for shape, body in sorted(shapes.items()):
                    for where in ("module", "function", "class", "nested-rebind"):
                        if where == "module":
                            src = body
                        elif where == "function":
                            src = "def FF():\n" + "".join("    " + l + "\n" for l in body.splitlines()) + "FF()\n"
                        elif where == "class":
                            src = "class KK:\n" + "".join("    " + l + "\n" for l in body.splitlines())
                        else:
                            if shape != "untaken-branch":
                                continue
                            # the name is rebound by a nested function between the textual assignment and the statement
                            src = ("def FF():\n    x = %s\n    def rebind():\n        nonlocal x\n        x = %s\n    rebind()\n    al = x\n    x %s %s\n"
                                   "    L('r', x, al, x is al)\nFF()\n" % (tv, val, op, b))
                        yield ("runtime:%s:%s" % (kind, shape), src)


def _run_time_shard(item):
    idx, nshards = item
    part = new_part()
    for k, (tag, src) in enumerate(run_time_cases()):
        if k % nshards != idx:
            continue
        check_src(part, tag, src, True, [env.ALL_CFGS[k % 8], env.ALL_CFGS[(k + 5) % 8]],
                  "augmented assignment on what the name holds at run time differs (%s)" % tag)
    return part


def _branch_store_shard(item):
    """stores that are the ONLY effect of a taken branch, for falsy and truthy stored values: what
    the target receives must not depend on how the branch is encoded (the falsy-body family of C05,
    decided here with the final values of all targets as well)"""
    from . import c05
    from ..kit import Kit
    idx, nshards = item
    part = new_part()
    for k, (vi, fi, shape, src) in enumerate(c05.falsy_cases()):
        if k % nshards != idx:
            continue
        form = c05.BODY_FORMS[fi]
        if not any(t in form for t in (" = ", ":=", "*=", "import")):
            continue
        # the final values become observable
        src = src + "L('final', *[globals().get(n) for n in ('x', 'y', 'z', 'w', 'gq', 'lst', 'pp')])\n"
        for sched in (0, 1):
            o = run_code(src, "exec", Kit(sched, 100000))
            if not o["ok"]:
                part["discarded"]["branch-store-original-raises"] += 1
                break
            part["evaluations"] += 1
            part["classes"]["branch-store"] += 1
            part["nontrivial"].add(key_hash(src, sched))
            status, failures, _ = check_program(src, env.ALL_CFGS, sched, orig=o)
            if status == "fail":
                cfg, diffs, text = failures[0]
                if len(part["violations"]) < 3:
                    part["violations"].append({"payload": program_payload(src, cfg, sched), "diffs": diffs,
                                               "what": "a store that is the only statement of a taken branch differs (%s)" % env.cfg_name(cfg)})
                break
    return part


def run(report):
    quick = report.tier == "quick"
    report.rule = RULE
    switches = sorted(open_switches('C13'))
    ns = env.NPROC * 2
    items = [(_aug_shard, (i, ns, switches)) for i in range(ns)]
    items += [(_pattern_shard, (i, ns, quick)) for i in range(ns)]
    items += [(_branch_store_shard, (i, ns)) for i in range(ns)]
    items += [(_run_time_shard, (i, ns)) for i in range(ns)]
    items += [(_deep_shard, (env.sub_seed(report.seed, "C13", i), 40 if quick else 2500)) for i in range(env.NPROC)]
    from .. import hosts
    others = hosts.available_other_hosts()
    cases = []
    skip_kinds = {"inplace_ni": "inplace-returns-notimplemented", "list_reflected": "sequence-inplace-with-reflected-operand"}
    for i, (tag, src, nt, kind) in enumerate(aug_cases()):
        if skip_kinds.get(kind) in switches:
            continue
        if i % (4 if quick else 1) == 0:
            cases.append((src, [env.ALL_CFGS[i % 8]]))
    for tag, src, nt in chained_cases():
        cases.append((src, [env.ALL_CFGS[len(cases) % 8]]))
    for i, (tag, stmt, names, nt) in enumerate(pattern_cases()):
        if i % (40 if quick else 5) == 0:
            cases.append((case_program(stmt, names, ("module", "function", "class")[i % 3]), [env.ALL_CFGS[i % 8]]))
    for h in others:
        for k in range(3):
            items.append((hosts.host_shard, (h, cases[k::3], {}, "stores differ")))
    report.extra["other_hosts"] = others
    report.extra["host_cases_per_host"] = len(cases)
    for part in env.pmap(_call, items):
        report.absorb(part)
    report.exhaustive = True
    report.notes.append("exhaustive:true refers to the depth-1/2 pattern family and the augmented-assignment matrix; depth-3 patterns are sampled")
    for s in switches:
        report.exclusions.setdefault(s, 0)
    report.assumptions += ["cells whose original raises (type-incompatible operator/operand) are outside the domain"]


def _call(item):
    f, arg = item
    return f(arg)


def replay(payload):
    return replay_program(payload)
