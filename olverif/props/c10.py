"""C10 - conversion is a pure function of (source, options) up to fresh-name choice.

Domain   Hypothesis RuleBasedStateMachine over histories of API actions (create options
         object, set legal / illegal option value, convert with object j, convert with no
         options, convert a program that is rejected half-way, reseed random, drop object).
Model    dict per live object {option: value}; 'no options' == defaults, always.
Oracle   every conversion, normalised by first-occurrence renaming of __ol_ names, equals
         the normalised result of the same call made in a FRESH PROCESS.
"""
import json
import os
import random
import re
import subprocess
import sys
import tempfile

import hypothesis
from hypothesis import HealthCheck, Phase, Verbosity, settings
from hypothesis import strategies as st
from hypothesis.stateful import RuleBasedStateMachine, precondition, rule, run_state_machine_as_test

from .. import env
from ..gen import pool
from ..runner import new_part, key_hash

OPTIONS = {"unparser": list(env.UNPARSERS), "expr_wrapper": ["chain_call", "list"],
           "if_style": list(env.IF_STYLES)}
DEFAULTS = {"unparser": "ast.unparse", "expr_wrapper": "chain_call", "if_style": "if_expr"}
ILLEGAL = ["", "AST.UNPARSE", "oneliner ", "list ", "If_expr", "chain_call\n", "none", 0, None, True,
           "list", "oneliner", "short_circuit"]  # the last three: legal for ANOTHER option

RULE = ("histories are drawn by a Hypothesis rule-based state machine (<= %d steps) over "
        "{new options object, set legal value, set illegal value (must raise ValueError and "
        "change nothing), convert pool program p with object j, convert p with no options, "
        "convert a program that is rejected half-way, random.seed(s), drop object}; after every "
        "conversion the normalised text must equal the fresh-process reference for "
        "(p, modelled options). Non-trivial: the history sets an option on one object and later "
        "converts with a different object or with no options; distinct by action sequence.")

# purpose + random suffix; the length of the suffix is not part of the property
_NAME = re.compile(r"__ol_([a-z]+)_([a-z]+)\b")


def normalise(text):
    seen = {}

    def sub(m):
        k = m.group(0)
        if k not in seen:
            seen[k] = "__ol_%s_#%d" % (m.group(1), len(seen))
        return seen[k]

    return _NAME.sub(sub, text)


_REF_SCRIPT = r'''
import sys, json
sys.path.insert(0, sys.argv[1])
import oneliner
from oneliner.config import Configs
job = json.load(sys.stdin)
c = Configs()
for k, v in job["opts"].items():
    setattr(c, k, v)
try:
    out = ("ok", oneliner.convert_code_string(job["src"], configs=c))
except BaseException as e:
    out = ("raise", type(e).__name__)
json.dump(out, sys.stdout)
'''


def fresh_reference(job):
    """the same call in a fresh interpreter process (job may carry a third item: the string-hash
    seed of that process)"""
    src, opts = job[0], job[1]
    envv = dict(os.environ)
    envv.pop("PYTHONPATH", None)
    if len(job) > 2:
        envv["PYTHONHASHSEED"] = str(job[2])
    p = subprocess.run([sys.executable, "-c", _REF_SCRIPT, env.REPO],
                       input=json.dumps({"src": src, "opts": opts}), capture_output=True,
                       text=True, env=envv, timeout=120)
    if p.returncode != 0:
        raise env.HarnessError("reference process failed: %s" % p.stderr[-400:])
    kind, val = json.loads(p.stdout)
    return [kind, normalise(val) if kind == "ok" else val]


def outcome_of(call):
    try:
        return ["ok", normalise(call())]
    except BaseException as e:
        return ["raise", type(e).__name__]


def opts_key(o):
    return (o["unparser"], o["expr_wrapper"], o["if_style"])


PROGRAMS = None
REFS = None
UNSTABLE = []
REPLAY_IN_FRESH_PROCESS = True   # the runner replays witnesses of this property in a new interpreter


def build_refs():
    global PROGRAMS, REFS
    PROGRAMS = pool.all_programs()
    PROGRAMS.update({"rejected:" + k: v for k, v in pool.REJECTED.items()})
    names = sorted(PROGRAMS)
    jobs, keys = [], []
    for n in names:
        for key in env.ALL_CFGS:
            o = dict(zip(("unparser", "expr_wrapper", "if_style"), key))
            jobs.append((PROGRAMS[n], o))
            keys.append((n, key))
    res = env.pmap(fresh_reference, jobs)
    REFS = dict(zip(keys, res))
    # trusted-base check: a second fresh run gives the same normalised outcome
    sample = list(range(0, len(jobs), 4))
    again = env.pmap(fresh_reference, [jobs[i] for i in sample])
    global UNSTABLE
    UNSTABLE = []
    for i, r in zip(sample, again):
        if r != res[i]:
            # the same call in two fresh processes with the same environment: the only thing that differs
            # is the state of the random generator (unseeded there). That IS the property.
            UNSTABLE.append((keys[i], jobs[i], res[i], r))
    return len(jobs)


# ------------------------------------------------------------------ interpreter of histories

class Executor(object):
    """Runs actions against the real API and the model; returns a diff string or None."""

    def __init__(self):
        self.objs = {}
        self.model = {}
        self.next_id = 0

    def do(self, act):
        from oneliner.config import Configs
        import oneliner
        k = act[0]
        if k == "new":
            self.objs[self.next_id] = Configs()
            self.model[self.next_id] = dict(DEFAULTS)
            self.next_id += 1
        elif k == "set":
            _, j, name, val = act
            if j not in self.objs:
                return None
            setattr(self.objs[j], name, val)
            self.model[j][name] = val
        elif k == "set_illegal":
            _, j, name, val = act
            if j not in self.objs:
                return None
            if val in OPTIONS[name]:
                return None
            try:
                setattr(self.objs[j], name, val)
            except ValueError:
                pass
            else:
                # accepted: outside C10 (C16 owns validation); the object can no longer be modelled
                del self.objs[j], self.model[j]
        elif k == "drop":
            _, j = act
            self.objs.pop(j, None)
            self.model.pop(j, None)
        elif k == "seed":
            random.seed(act[1])
        elif k == "read":
            _, j = act
            if j in self.objs:
                got = {n: getattr(self.objs[j], n) for n in OPTIONS}
                if got != self.model[j]:
                    return "options object %d reads %r, model says %r" % (j, got, self.model[j])
        elif k in ("conv", "conv_default"):
            if k == "conv":
                _, j, pname = act
                if j not in self.objs:
                    return None
                o = self.objs[j]
                mo = self.model[j]
                call = lambda: oneliner.convert_code_string(PROGRAMS[pname], configs=o)
            else:
                _, pname = act
                mo = DEFAULTS
                call = lambda: oneliner.convert_code_string(PROGRAMS[pname])
            got = outcome_of(call)
            ref = REFS.get((pname, opts_key(mo)))
            if ref is None:
                ref = REFS[(pname, opts_key(mo))] = fresh_reference((PROGRAMS[pname], dict(mo)))
            if got != ref:
                return "conversion of %r with %s differs from the fresh-process result:\n  got %s\n  ref %s" % (
                    pname, "no options (defaults)" if k == "conv_default" else "options %r" % (mo,),
                    _clip(got), _clip(ref))
        else:
            raise env.HarnessError("unknown action %r" % (act,))
        return None


def _clip(o, n=300):
    s = json.dumps(o)
    return s if len(s) <= n else s[:n] + "..."


def run_history(hist):
    ex = Executor()
    for i, act in enumerate(hist):
        d = ex.do(tuple(act))
        if d:
            return ["step %d %r: %s" % (i, list(act), d)]
    return []


def nontrivial(hist):
    setters = set()
    for act in hist:
        if act[0] == "set" and act[3] != DEFAULTS[act[2]]:
            setters.add(act[1])
        elif act[0] == "conv_default" and setters:
            return True
        elif act[0] == "conv" and any(j != act[1] for j in setters):
            return True
    return False


# ------------------------------------------------------------------ the state machine

PROCESS_HISTORY = []   # every action executed by this process, across examples
LAST = {}


class _Violation(Exception):
    pass


def make_machine(part, pnames, ok_names):
    class Machine(RuleBasedStateMachine):
        def __init__(self):
            super().__init__()
            self.ex = Executor()
            self.hist = []
            self._step(("new",))

        def _step(self, act):
            self.hist.append(list(act))
            PROCESS_HISTORY.append(list(act))
            d = self.ex.do(act)
            if d:
                LAST["hist"] = list(self.hist)
                LAST["diff"] = d
                raise _Violation(d)

        def _objs(self):
            return sorted(self.ex.objs) or [0]

        @rule()
        def new(self):
            if len(self.ex.objs) < 4:
                self._step(("new",))

        @rule(data=st.data(), name=st.sampled_from(sorted(OPTIONS)))
        def set_legal(self, data, name):
            j = data.draw(st.sampled_from(self._objs()))
            self._step(("set", j, name, data.draw(st.sampled_from(OPTIONS[name]))))

        @rule(data=st.data(), name=st.sampled_from(sorted(OPTIONS)), val=st.sampled_from(ILLEGAL))
        def set_illegal(self, data, name, val):
            j = data.draw(st.sampled_from(self._objs()))
            self._step(("set_illegal", j, name, val))

        @rule(data=st.data(), p=st.sampled_from(ok_names))
        def convert(self, data, p):
            j = data.draw(st.sampled_from(self._objs()))
            self._step(("conv", j, p))

        @rule(p=st.sampled_from(ok_names))
        def convert_default(self, p):
            self._step(("conv_default", p))

        @rule(data=st.data(), p=st.sampled_from([n for n in pnames if n.startswith("rejected:")]))
        def convert_rejected(self, data, p):
            j = data.draw(st.sampled_from(self._objs()))
            self._step(("conv", j, p))

        @rule(data=st.data(), name=st.sampled_from(sorted(OPTIONS)), p=st.sampled_from(ok_names),
              other=st.booleans())
        def set_then_convert_elsewhere(self, data, name, p, other):
            j = data.draw(st.sampled_from(self._objs()))
            val = [v for v in OPTIONS[name] if v != DEFAULTS[name]][0]
            self._step(("set", j, name, val))
            others = [k for k in self._objs() if k != j]
            if other and others:
                self._step(("conv", data.draw(st.sampled_from(others)), p))
            else:
                self._step(("conv_default", p))

        @rule(s=st.integers(0, 3))
        def reseed(self, s):
            self._step(("seed", s))

        @rule(data=st.data())
        def read_back(self, data):
            self._step(("read", data.draw(st.sampled_from(self._objs()))))

        @rule(data=st.data())
        def drop(self, data):
            if len(self.ex.objs) > 1:
                self._step(("drop", data.draw(st.sampled_from(self._objs()))))

        def teardown(self):
            part["evaluations"] += 1
            h = self.hist
            part["classes"]["len:%d" % (len(h) // 3 * 3)] += 1
            for a in h:
                part["classes"]["act:" + a[0]] += 1
            if nontrivial(h):
                part["nontrivial"].add(key_hash(h))
                part["classes"]["nontrivial"] += 1
                if len(part["samples"]) < 2:
                    part["samples"].append(h)

    return Machine


def _replay_in_fresh_process(hist):
    """does this history fail when executed from a fresh interpreter?"""
    with tempfile.NamedTemporaryFile("w", suffix=".json", delete=False, dir="/tmp") as f:
        json.dump({"payload": {"kind": "history", "history": hist}}, f)
        path = f.name
    try:
        p = subprocess.run([sys.executable, "-m", "olverif", "C10", "--replay", path],
                           capture_output=True, text=True, timeout=600)
        return p.returncode == 1
    finally:
        os.unlink(path)


def _machine_shard(item):
    seed, n_examples, steps = item
    part = new_part()
    pnames = sorted(PROGRAMS)
    ok_names = [n for n in pnames if not n.startswith("rejected:")]
    M = hypothesis.seed(seed)(make_machine(part, pnames, ok_names))
    sett = settings(max_examples=n_examples, stateful_step_count=steps, deadline=None, database=None,
                    derandomize=False, report_multiple_bugs=False, verbosity=Verbosity.quiet,
                    phases=(Phase.generate, Phase.shrink), suppress_health_check=list(HealthCheck),
                    print_blob=False)
    failed = None
    try:
        run_state_machine_as_test(M, settings=sett)
    except _Violation:
        failed = "violation"
    except hypothesis.errors.HypothesisException as e:
        if LAST.get("hist"):
            failed = "flaky:" + type(e).__name__   # state leaking between examples makes replays inconsistent
        else:
            raise env.HarnessError("hypothesis: %s: %s" % (type(e).__name__, e))
    except BaseException as e:
        if LAST.get("hist") and type(e).__name__ in ("FlakyFailure", "ExceptionGroup", "BaseExceptionGroup"):
            failed = "flaky:" + type(e).__name__
        else:
            raise
    if failed:
        hist = LAST["hist"]
        what = "history-dependent conversion result"
        if not _replay_in_fresh_process(hist):
            full = list(PROCESS_HISTORY)
            if _replay_in_fresh_process(full):
                hist = full
                what += " (needs the state left behind by earlier histories of the same process)"
            else:
                what += " (observed in-process; not reproducible from a fresh process: %s)" % failed
        part["violations"].append({"payload": {"kind": "history", "history": hist},
                                   "diffs": [LAST.get("diff", failed)], "what": what})
    return part


STATEFUL_PROGRAMS = ["long_string_plain", "long_string_in_field", "long_string_nested", "long_decorated",
                     "many_helpers", "for_break", "while_break_else", "import_plain", "class_inherit_super",
                     "rejected:starred_comp_target_in_lambda", "rejected:attr_comp_target_in_class",
                     "rejected:walrus_while_deep", "closure", "comprehensions",
                     "equal_literals_floats", "equal_literals_ints", "equal_literals_bools", "equal_literals_strings"]


def _pair_shard(item):
    """every ordered pair (X, Y) of the state-sensitive programs, converted one after the other in
    ONE process under each unparser: anything X leaves behind that changes Y shows against the
    fresh-process reference of Y"""
    idx, nshards = item
    part = new_part()
    ex = Executor()
    hist = []

    def step(act):
        hist.append(list(act))
        return ex.do(tuple(act))

    step(("new",))
    pairs = [(x, y) for x in STATEFUL_PROGRAMS for y in STATEFUL_PROGRAMS if x in PROGRAMS and y in PROGRAMS]
    for k in range(idx, len(pairs), nshards):
        x, y = pairs[k]
        for unparser in env.UNPARSERS:
            for wrapper in ("chain_call", "list") if k % 2 else ("list",):
                d = step(("set", 0, "unparser", unparser)) or step(("set", 0, "expr_wrapper", wrapper))
                for prog in (x, y, x):
                    d = d or step(("conv", 0, prog))
                part["evaluations"] += 1
                part["nontrivial"].add(key_hash("pair", x, y, unparser, wrapper))
                if d:
                    small = [["new"], ["set", 0, "unparser", unparser], ["set", 0, "expr_wrapper", wrapper],
                             ["conv", 0, x], ["conv", 0, y], ["conv", 0, x]]
                    use = small if _replay_in_fresh_process(small) else list(hist)
                    part["violations"].append({"payload": {"kind": "history", "history": use}, "diffs": [d],
                                               "what": "converting %r changes a later conversion of %r (or of itself)" % (x, y)})
                    return part
    return part


def _seed_shard(item):
    """the result must not depend on the state of the random generator: many seeds, one program
    with many helper names, each compared with the fresh-process reference"""
    lo, hi = item
    import oneliner
    part = new_part()
    for pname in ("many_helpers", "long_decorated"):
        for cfg in (env.DEFAULT_CFG, ("oneliner", "list", "short_circuit")):
            ref = REFS[(pname, tuple(cfg))]
            for sd in range(lo, hi):
                random.seed(sd)
                got = outcome_of(lambda: oneliner.convert_code_string(PROGRAMS[pname], configs=env.make_cfg(cfg)))
                part["evaluations"] += 1
                if got != ref:
                    part["violations"].append({
                        "payload": {"kind": "history", "history": [["new"], ["set", 0, "unparser", cfg[0]],
                                                                   ["set", 0, "expr_wrapper", cfg[1]], ["set", 0, "if_style", cfg[2]],
                                                                   ["seed", sd], ["conv", 0, pname]]},
                        "diffs": ["with random.seed(%d) the conversion of %r differs from the fresh-process result "
                                  "beyond a renaming of the helper names" % (sd, pname)],
                        "what": "conversion depends on the state of the random generator"})
                    return part
    part["nontrivial"].add(key_hash("seeds", lo, hi))
    part["nontrivial"].add(key_hash("seeds-b", lo, hi))
    return part


def run(report):
    quick = report.tier == "quick"
    report.rule = RULE % (10 if quick else 16)
    nrefs = build_refs()
    report.extra["fresh_process_references"] = nrefs
    for (n, key), (src, o), r1, r2 in UNSTABLE[:3]:
        report.violations.append({
            "payload": {"kind": "fresh-twice", "prog": n, "src": src, "cfg": list(key)},
            "diffs": ["the same call in two fresh processes gives different texts beyond the renaming of temporaries: %s"
                      % _first_difference(r1, r2)],
            "what": "conversion result is not a function of (source, options): %s, %s" % (n, env.cfg_name(key))})
    if UNSTABLE:
        # the references cannot serve as an oracle for histories; what was found is reported
        report.notes.append("fresh-process references unstable for %d of the re-checked cells: history stages skipped" % len(UNSTABLE))
        return
    report.extra["pool_programs"] = len(PROGRAMS)
    # deterministic smoke histories first (the shapes the property text names)
    smoke = []
    pn = "for_break"
    for name, vals in OPTIONS.items():
        other = [v for v in vals if v != DEFAULTS[name]][0]
        smoke.append([["new"], ["set", 0, name, other], ["new"], ["conv", 1, pn], ["conv_default", pn], ["conv", 0, pn]])
        smoke.append([["new"], ["new"], ["set", 1, name, other], ["read", 0], ["conv", 0, "if_else"], ["drop", 1], ["conv_default", "if_else"]])
    smoke.append([["new"], ["conv", 0, "rejected:try_after_loops"], ["conv_default", "for_plain"], ["conv_default", "one_stmt"]])
    smoke.append([["new"], ["seed", 1], ["conv", 0, "while_loop"], ["seed", 1], ["conv", 0, "while_loop"], ["conv_default", "while_break_else"]])
    for h in smoke:
        report.evaluations += 1
        if nontrivial(h):
            report.nontrivial.add(key_hash(h))
        # each smoke history needs a fresh process to mean anything: run it there
        if _replay_in_fresh_process(h):
            report.violations.append({"payload": {"kind": "history", "history": h},
                                      "diffs": run_history_fresh_diffs(h), "what": "history-dependent conversion result"})
    for part in env.pmap(_pair_shard, [(i, env.NPROC) for i in range(env.NPROC)]):
        report.absorb(part)
    # the interpreter's string-hash seed is state of the process too: the same call in fresh
    # processes with OTHER hash seeds must give the text of the reference (computed under seed 0)
    hs_jobs, hs_keys = [], []
    hseeds = (1, 2, 3) if quick else (1, 2, 3, 4, 5, 6, 7, 8)
    for i, n in enumerate(sorted(PROGRAMS)):
        for j, hsd in enumerate(hseeds):
            key = env.ALL_CFGS[(i + 3 * j) % 8]
            hs_jobs.append((PROGRAMS[n], dict(zip(("unparser", "expr_wrapper", "if_style"), key)), hsd))
            hs_keys.append((n, key, hsd))
    hs_res = env.pmap(fresh_reference, hs_jobs)
    for (n, key, hsd), r in zip(hs_keys, hs_res):
        report.evaluations += 1
        report.classes["hash-seed-sweep"] += 1
        report.nontrivial.add(key_hash("hashseed", n, key, hsd))
        if r != REFS[(n, key)]:
            report.violations.append({
                "payload": {"kind": "hashseed", "prog": n, "src": PROGRAMS[n], "cfg": list(key), "hash_seed": hsd},
                "diffs": ["converted in a fresh process with PYTHONHASHSEED=%d the text differs from the one under PYTHONHASHSEED=0 "
                          "(beyond the renaming of temporaries): %s" % (hsd, _first_difference(REFS[(n, key)], r))],
                "what": "conversion result depends on the string-hash seed of the process (%s, %s)" % (n, env.cfg_name(key))})
    report.extra["hash_seeds_tried"] = list(hseeds)
    n_seeds = 1600 if quick else 16000
    step = n_seeds // env.NPROC
    for part in env.pmap(_seed_shard, [(i * step, (i + 1) * step) for i in range(env.NPROC)]):
        report.absorb(part)
    report.extra["ordered_pairs"] = len(STATEFUL_PROGRAMS) ** 2
    report.extra["random_states_tried"] = n_seeds
    n_sh = env.NPROC
    per = 60 if quick else 800
    items = [(env.sub_seed(report.seed, "C10", i), per, 10 if quick else 16) for i in range(n_sh)]
    for part in env.pmap(_machine_shard, items):
        report.absorb(part)
    report.samples = report.samples[:6]
    report.assumptions += [
        "two fresh processes converting the same input differ only in the random suffixes of "
        "__ol_ names (a quarter of the references is computed twice on every run; a difference is reported as a violation)",
        "illegal option values are expected to raise ValueError; an accepted illegal value is "
        "left to C16 and the object is dropped from the model",
    ]


def _first_difference(a, b):
    if a[0] != b[0]:
        return "%r vs %r" % (a[0], b[0])
    x, y = a[1], b[1]
    k = next((i for i in range(min(len(x), len(y))) if x[i] != y[i]), min(len(x), len(y)))
    return "...%r vs ...%r" % (x[max(0, k - 40):k + 40], y[max(0, k - 40):k + 40])


def run_history_fresh_diffs(h):
    return ["history fails when run from a fresh process: %s" % json.dumps(h)]


def replay(payload):
    if payload.get("kind") == "fresh-twice":
        o = dict(zip(("unparser", "expr_wrapper", "if_style"), payload["cfg"]))
        runs = [fresh_reference((payload["src"], o)) for _ in range(6)]
        bad = [r for r in runs[1:] if r != runs[0]]
        return ["the same call in fresh processes gives different texts: %s" % _first_difference(runs[0], bad[0])] if bad else []
    if payload.get("kind") == "hashseed":
        o = dict(zip(("unparser", "expr_wrapper", "if_style"), payload["cfg"]))
        a = fresh_reference((payload["src"], o, 0))
        b = fresh_reference((payload["src"], o, payload["hash_seed"]))
        return [] if a == b else ["text under PYTHONHASHSEED=%d differs from the text under PYTHONHASHSEED=0: %s" % (
            payload["hash_seed"], _first_difference(a, b))]
    if payload.get("kind") != "history":
        raise env.HarnessError("unknown replay payload kind %r" % payload.get("kind"))
    global PROGRAMS, REFS
    if PROGRAMS is None:
        PROGRAMS = pool.all_programs()
        PROGRAMS.update({"rejected:" + k: v for k, v in pool.REJECTED.items()})
        REFS = {}
    return run_history(payload["history"])
