"""C02 - accepted input always yields one well-formed single-line expression.

Domain   (a) G-PROG programs; (b) G-PROG programs with out-of-fragment constructs injected
         (inputs the converter may or may not accept); (c) standard-library modules with
         unsupported statements stripped; all x 8 configurations.
Oracle   if convert_code_string returns t: no line break in t, compile(t,'eval') succeeds and
         ast.parse(t, mode='eval') is exactly one expression. If it raises, the input counts
         as rejected. Nothing is executed.
"""
import ast
import random

from .. import env, hyp
from ..gen import prog, pool
from ..runner import new_part, key_hash, open_switches
from . import c03, c08

RULE = ("(a) programs drawn by G-PROG, (b) the same with unsupported or illegally placed constructs "
        "injected by the C08 injector at a seeded subset of positions, (c) every module of the "
        "standard library found in the image after stripping statements of unsupported kinds "
        "(try, raise, with, assert, del, match, type alias, async forms, star imports, functions "
        "containing yield/await) - each converted under all 8 configurations; (d) the G-NEST sweep of "
        "construct interactions (every construct inside / next to every other one, about 17 000 programs; "
        "quick: 2 configurations by rotation, thorough: all 8); (e) assignment expressions in while conditions "
        "(10 condition forms x 7 loop bodies x 6 placements x 8 configurations: refused or well-formed). A case is "
        "non-trivial when the conversion RETURNED (was not rejected) and the source has >= 5 "
        "statements; distinct by (source, configuration). returned/rejected counts are reported.")

UNSUPPORTED = (ast.Try, ast.Raise, ast.With, ast.Assert, ast.Delete, ast.Match, ast.AsyncFunctionDef,
               ast.AsyncFor, ast.AsyncWith) + ((ast.TryStar,) if hasattr(ast, "TryStar") else ()) \
    + ((ast.TypeAlias,) if hasattr(ast, "TypeAlias") else ())


def wellformed_diffs(text):
    if not isinstance(text, str):
        return ["convert_code_string returned %r, not text" % type(text)]
    if "\n" in text or "\r" in text:
        return ["output contains a line break"]
    try:
        compile(text, "<o>", "eval")
    except (SyntaxError, ValueError) as e:
        return ["output does not compile in eval mode: %s: %s ... %s" % (type(e).__name__, str(e)[:150], text[:200])]
    except (RecursionError, MemoryError):
        return []   # size limits are C17's subject
    try:
        t = ast.parse(text, mode="eval")
    except (RecursionError, MemoryError):
        return []
    if not isinstance(t, ast.Expression):
        return ["output does not parse as one expression"]
    return []


def check_source(part, src, cfgs, tag, seed=0):
    n_stmts = sum(isinstance(n, ast.stmt) for n in ast.walk(ast.parse(src)))
    for cfg in cfgs:
        part["evaluations"] += 1
        try:
            text = env.convert(src, cfg, seed)
        except RecursionError:
            part["classes"]["rejected:RecursionError"] += 1
            continue
        except Exception as e:
            part["classes"]["rejected"] += 1
            part["classes"]["rejected:" + type(e).__name__] += 1
            continue
        part["classes"]["returned"] += 1
        part["classes"]["returned:" + tag] += 1
        if n_stmts >= 5:
            part["nontrivial"].add(key_hash(src, cfg))
        diffs = wellformed_diffs(text)
        if diffs:
            return {"payload": {"kind": "wellformed", "src": src, "cfg": list(cfg), "seed": seed},
                    "diffs": diffs, "what": "accepted input turned into text that is not an expression (%s)" % tag}
    return None


# ------------------------------------------------------------------ corpus stripping

class Stripper(ast.NodeTransformer):
    def __init__(self, extra_pred=None):
        self.removed = 0
        self.extra_pred = extra_pred

    def _bad(self, node):
        if isinstance(node, UNSUPPORTED):
            return True
        if isinstance(node, ast.ImportFrom) and any(a.name == "*" for a in node.names):
            return True
        if isinstance(node, (ast.FunctionDef, ast.Expr, ast.Assign, ast.AugAssign, ast.AnnAssign, ast.Return,
                             ast.If, ast.While, ast.For, ast.ClassDef)):
            # expression-level unsupported constructs anywhere inside -> drop the statement
            for sub in ast.walk(node):
                if isinstance(sub, (ast.Yield, ast.YieldFrom, ast.Await)):
                    return True
                if isinstance(sub, ast.comprehension) and sub.is_async:
                    return True
        if self.extra_pred is not None and self.extra_pred(node):
            return True
        return False

    def generic_visit(self, node):
        for field in ("body", "orelse", "finalbody"):
            lst = getattr(node, field, None)
            if isinstance(lst, list) and lst and isinstance(lst[0], ast.stmt):
                new = []
                for s in lst:
                    if self._bad(s):
                        self.removed += 1
                        continue
                    new.append(self.visit(s))
                if not new and field == "body":
                    new = [ast.Pass()]
                setattr(node, field, new)
        return node


def strip_module(src, extra_pred=None):
    tree = ast.parse(src)
    st = Stripper(extra_pred)
    st.visit(tree)
    out = ast.unparse(ast.fix_missing_locations(tree))
    compile(out, "<stripped>", "exec", dont_inherit=True)
    return out, st.removed


def walrus_in_loop_header(node):
    """exclusion switch 'walrus-in-loop-header': structural predicate"""
    if isinstance(node, ast.While):
        return any(isinstance(n, ast.NamedExpr) for n in ast.walk(node.test))
    if isinstance(node, ast.For):
        return any(isinstance(n, ast.NamedExpr) for n in ast.walk(node.iter))
    return False


def _corpus_shard(item):
    files, cfg_offset, ncfg, switches = item
    part = new_part()
    pred = walrus_in_loop_header if "walrus-in-loop-header" in switches else None
    for i, path in enumerate(files):
        try:
            with open(path, encoding="utf8") as fh:
                src = fh.read()
            stripped, removed = strip_module(src, pred)
        except (SyntaxError, ValueError, UnicodeDecodeError, RecursionError, OSError, MemoryError):
            part["discarded"]["module-unusable-after-stripping"] += 1
            continue
        part["extra"]["corpus_modules"] = part["extra"].get("corpus_modules", 0) + 1
        cfgs = [env.ALL_CFGS[(cfg_offset + i + k) % 8] for k in range(ncfg)]
        v = check_source(part, stripped, cfgs, "corpus")
        if v:
            v["what"] += " [%s]" % path
            if len(part["violations"]) < 3:
                part["violations"].append(v)
    return part


def _gen_shard(item):
    seed, n, inject, switches = item
    part = new_part()

    def body(p):
        try:
            compile(p.source, "<p>", "exec")
        except SyntaxError:
            part["discarded"]["generator-invalid"] += 1
            return None
        if len(part["samples"]) < 1:
            part["samples"].append(p.source[:800])
        v = check_source(part, p.source, env.ALL_CFGS, "generated", seed & 0xffff)
        if v or not inject:
            return v
        rng = random.Random(key_hash(p.source))
        for (c, w, nt, src) in c08.sample_injections(p.source, rng, 10, switches):
            if src is None:
                continue
            try:
                ast.parse(src)
            except (SyntaxError, ValueError):
                continue
            v = check_source(part, src, [env.ALL_CFGS[rng.randrange(8)]], "injected", seed & 0xffff)
            if v:
                return v
        return None

    calls, v = hyp.search(prog.program_strategy(switches), body, seed, n, key=lambda p: p.source,
                          shrink_calls=150)
    if v:
        part["violations"].append(v)
    return part


def _host_shard(item):
    """well-formedness under another host interpreter: convert there, compile the text there"""
    host, sources = item
    from .. import interp
    part = new_part()
    pl = interp.Pool()
    try:
        if host not in pl.found:
            part["discarded"]["host-%s-not-found" % host] += len(sources)
            return part
        w = pl.get(host)
        for name, src in sources:
            ok = w.call({"op": "compile", "text": src, "mode": "exec"})
            if not ok.get("ok"):
                part["discarded"]["source-not-valid-on-host-%s" % host] += 1
                continue
            for cfg in env.ALL_CFGS:
                c = w.call({"op": "convert", "repo": env.REPO, "src": src, "cfg": list(cfg), "seed": 0})
                if c.get("worker_error"):
                    raise env.HarnessError("host worker %s: %s" % (host, c.get("err")))
                part["evaluations"] += 1
                if not c.get("ok"):
                    part["classes"]["rejected-on-host:" + host] += 1
                    continue
                part["classes"]["returned-on-host:" + host] += 1
                part["nontrivial"].add(key_hash(host, src, cfg))
                text = c["text"]
                d = []
                if "\n" in text or "\r" in text:
                    d = ["output contains a line break"]
                else:
                    k = w.call({"op": "compile", "text": text, "mode": "eval"})
                    if not k.get("ok") and not str(k.get("err", "")).startswith(("RecursionError", "MemoryError")):
                        d = ["output does not compile in eval mode on host %s: %s ... %s" % (host, k.get("err"), text[:160])]
                if d and len(part["violations"]) < 3:
                    part["violations"].append({
                        "payload": {"kind": "wellformed-host", "src": src, "cfg": list(cfg), "host": host},
                        "diffs": d, "what": "accepted input turned into text that is not an expression on host %s (%s, %s)" % (
                            host, name, env.cfg_name(cfg))})
    finally:
        pl.close()
    return part


def _pool_shard(item):
    name, src = item
    part = new_part()
    v = check_source(part, src, env.ALL_CFGS, "pool")
    if v:
        part["violations"].append(v)
    return part


def _nest_shard(item):
    """G-NEST interaction programs (gen/nest.py): each construct inside / next to every other"""
    from ..gen import nest
    idx, nshards, all8 = item
    part = new_part()
    cases = nest.catalogue()
    for k in range(idx, len(cases), nshards):
        src = nest.build_any(cases[k])
        if src is None:
            continue
        cfgs = env.ALL_CFGS if all8 else [env.ALL_CFGS[k % 8], env.ALL_CFGS[(k + 3) % 8]]
        v = check_source(part, src, cfgs, "interaction")
        if v and len(part["violations"]) < 3:
            part["violations"].append(v)
    return part


def run(report):
    quick = report.tier == "quick"
    report.rule = RULE
    switches = sorted(open_switches('C02'))
    for s in switches:
        report.exclusions[s] = "open finding: shape stripped from corpus modules / not generated"
    items = [(_pool_shard, it) for it in sorted(pool.all_programs().items()) + sorted(pool.VERSION_SENSITIVE.items())]
    files = c03.stdlib_files()
    if files:
        if quick:
            import os
            files = [f for f in files if os.path.getsize(f) < 40000]
            files = sorted(random.Random(env.sub_seed(report.seed, "C02", "corpus")).sample(files, len(files) // 2))
        n = env.NPROC * 4
        off = env.sub_seed(report.seed, "C02", "cfg") % 8
        items += [(_corpus_shard, (files[i::n], off, 1 if quick else 8, switches)) for i in range(n)]
    else:
        report.notes.append("standard library sources not found; corpus family skipped")
    from .. import hosts as _hosts
    others = _hosts.available_other_hosts()
    hsrc = sorted(pool.all_programs().items()) + sorted(pool.VERSION_SENSITIVE.items())
    for h in others:
        for k in range(2):
            items.append((_host_shard, (h, hsrc[k::2])))
    report.extra["other_hosts"] = others
    per = 200 if quick else 3000
    items += [(_gen_shard, (env.sub_seed(report.seed, "C02", i), per, True, switches)) for i in range(env.NPROC)]
    items += [(_nest_shard, (i, env.NPROC * 2, not quick)) for i in range(env.NPROC * 2)]
    from ..gen import ww
    items += [(ww.shard, (i, 8, "wellformed")) for i in range(8)]
    for part in env.pmap(_call, items):
        report.absorb(part)
    report.extra["returned"] = report.classes.get("returned", 0)
    report.extra["rejected"] = report.classes.get("rejected", 0)
    report.assumptions += ["line break means what the tokenizer treats as one (\\n, \\r)",
                           "RecursionError/MemoryError while compiling a huge output is a size limit (C17), not a malformed output"]


def _call(item):
    f, arg = item
    return f(arg)


def replay(payload):
    if payload.get("kind") == "wellformed-host":
        part = _host_shard((payload["host"], [("replay", payload["src"])]))
        return [d for v in part["violations"] if v["payload"]["cfg"] == payload["cfg"] for d in v["diffs"]]
    if payload.get("kind") != "wellformed":
        raise env.HarnessError("unknown replay payload kind %r" % payload.get("kind"))
    try:
        text = env.convert(payload["src"], tuple(payload["cfg"]), payload.get("seed", 0))
    except Exception:
        return []
    return wellformed_diffs(text)
