"""C17 - long and deeply nested programs convert without exhausting recursion.

Domain   G-SIZE families x N on a geometric schedule (nesting families: up to CPython's 100
         indentation levels) x unparser x wrapper (x if-style where it matters); Hypothesis-drawn
         compositions (family A of size N1 inside family B of size N2).
Oracle   in a FRESH process with the default recursion limit: the source itself compiles and
         runs (else the size is outside the domain), conversion returns, the text compiles,
         evaluation leaves the same RESULT.
"""
import json
import os
import subprocess
import sys
from concurrent.futures import ThreadPoolExecutor

from hypothesis import strategies as st

from .. import env, hyp
from ..gen import size
from ..runner import key_hash, open_switches

RULE = ("every family member (family, N) of the G-SIZE catalogue (%d families; N on the schedule "
        "%s, nesting families on %s) is probed in its own interpreter process per configuration "
        "(unparser x wrapper, plus both if-styles for the families where the if lowering nests): "
        "source must compile and run there first (otherwise that size is outside the domain and "
        "larger sizes of the family are not probed), then conversion, compilation and evaluation of "
        "the output must succeed and leave the same RESULT. Dense sweep: EVERY block length 1..560 "
        "(thorough: 1..1000, four block families) under three configurations, many probes per fresh "
        "interpreter. Compositions (N1 inside N2) are drawn by Hypothesis. Non-trivial: N >= 300 (nesting families: N >= 60), or a composition with "
        "N1*N2 >= 3000; distinct by (family, N, configuration).")

PROBE = os.path.join(os.path.dirname(os.path.dirname(os.path.abspath(__file__))), "sizeprobe.py")


def probe(src, cfg, timeout=900):
    envv = dict(os.environ)
    envv.pop("PYTHONPATH", None)
    try:
        p = subprocess.run([sys.executable, PROBE], input=json.dumps({"repo": env.REPO, "src": src, "cfg": list(cfg)}),
                           capture_output=True, text=True, timeout=timeout, env=envv)
    except subprocess.TimeoutExpired:
        return {"stage": "timeout", "err": "probe exceeded %ds (inconclusive)" % timeout}
    try:
        return json.loads(p.stdout)
    except ValueError:
        return {"stage": "crash", "err": "probe process died rc=%s %s" % (p.returncode, p.stderr[-120:])}


def probe_batch(jobs, timeout=900):
    """jobs = [(src, cfg), ...] probed one after the other in ONE fresh interpreter"""
    envv = dict(os.environ)
    envv.pop("PYTHONPATH", None)
    payload = {"repo": env.REPO, "batch": [{"src": s, "cfg": list(c)} for s, c in jobs]}
    try:
        p = subprocess.run([sys.executable, PROBE], input=json.dumps(payload), capture_output=True, text=True,
                           timeout=timeout, env=envv)
        return json.loads(p.stdout)["results"]
    except (subprocess.TimeoutExpired, ValueError, KeyError):
        # fall back to one process per probe (a crash of one size must not hide the others)
        return [probe(s, c, timeout) for s, c in jobs]


# every block length 1..DENSE_MAX: mistakes that need an EXACT count (chunking, off-by-one at a
# boundary) are invisible to a geometric schedule
DENSE_FAMILIES_QUICK = ("stmts_aug",)
DENSE_FAMILIES_THOROUGH = ("stmts_aug", "stmts_in_func", "stmts_in_loop", "stmts_calls")


# sizes BETWEEN the schedule points for a few cheap chain families (a threshold between 1000 and 3000 is
# invisible to the quick schedule), and integer literals around the int-to-str digit limit (4300 decimal
# digits = 3572 hex digits): written in hex in the source, CPython has no limit there
EXTRA_POINTS = {"binop_left": (1500, 2000, 2500), "calls": (1500, 2000, 2500), "attrs": (1500, 2000, 2500),
                "subscripts": (1500, 2000, 2500), "boolop": (2000,), "compare_chain": (2000,)}
HEX_DIGITS = tuple(range(3400, 4500, 60)) + (5000, 8000)


def extra_jobs(switches):
    jobs = []
    for fam, points in sorted(EXTRA_POINTS.items()):
        for n in points:
            for cfg in (("oneliner", "chain_call", "if_expr"), ("oneliner", "list", "if_expr")):
                if not excluded(fam, n, cfg, switches):
                    jobs.append((fam, n, cfg, size.FAMILIES[fam](n)))
    for n in HEX_DIGITS:
        src = size.FAMILIES["hex_int_literal"](n)
        for cfg in (("oneliner", "list", "if_expr"), ("oneliner", "chain_call", "short_circuit"), ("ast.unparse", "chain_call", "if_expr")):
            if not excluded("hex_int_literal", n, cfg, switches):
                jobs.append(("hex_int_literal", n, cfg, src))
    return jobs


def dense_jobs(quick, switches):
    fams = DENSE_FAMILIES_QUICK if quick else DENSE_FAMILIES_THOROUGH
    top = 560 if quick else 1000
    jobs = []
    for fam in fams:
        for n in range(1, top + 1):
            for cfg in (("oneliner", "chain_call", "if_expr"), ("oneliner", "list", "if_expr"),
                        ("ast.unparse", "chain_call", "if_expr")):
                if excluded(fam, n, cfg, switches):
                    continue
                if cfg[0] == "ast.unparse" and n >= 290:
                    continue
                jobs.append((fam, n, cfg, size.FAMILIES[fam](n)))
    return jobs


_SOURCE_ONLY = "import sys,json\nsrc=sys.stdin.read()\ng={}\nexec(compile(src,'<s>','exec'),g)\nprint('ok')\n"


def source_alone_ok(src):
    p = subprocess.run([sys.executable, "-c", _SOURCE_ONLY], input=src, capture_output=True, text=True, timeout=900)
    return p.returncode == 0 and p.stdout.strip() == "ok"


def excluded(family, n, cfg, switches):
    """structural cells of the open findings (DESIGN 2.6): never outcome-based"""
    u, w, s = cfg
    if "ast-unparse-long-chain" in switches and u == "ast.unparse":
        big = n if isinstance(n, int) else max(n)
        # the recursive unparser gives up at about 320-326 links (measured); 300 is too close to
        # that threshold to be a stable probe point, so the excluded region starts there
        if big >= 300 and (family in size.CHAIN_LIKE or (family in size.STATEMENT_COUNT and w == "chain_call")):
            return "ast-unparse-long-chain"
        if family in size.COMPOSED and sum(n) >= 300:
            # a composition nests its two sizes: the recursive unparser sees roughly their sum
            return "ast-unparse-long-chain"
        if family == "nest_def" and big > 40:
            return "ast-unparse-long-chain"
    big = n if isinstance(n, int) else max(n)
    if "ast-unparse-int-digit-limit" in switches and u == "ast.unparse" and family == "hex_int_literal" and big >= 3500:
        return "ast-unparse-int-digit-limit"       # 4300 decimal digits are 3572 hex digits
    if "deep-decorator-stack" in switches and family == "decorators" and big > 100:
        return "deep-decorator-stack"
    if "chain-call-many-statements" in switches and w == "chain_call" and big > 1000 and (
            family in size.STATEMENT_COUNT or family in size.COMPOSED):
        return "chain-call-many-statements"
    if "short-circuit-long-elif" in switches and s == "short_circuit" and big > 100 and family in (
            "elif_chain", "elif_in_class_method"):
        return "short-circuit-long-elif"
    return None


def cfgs_for(family):
    styles = env.IF_STYLES if family in size.IF_STYLE_SENSITIVE else ("if_expr",)
    return [(u, w, s) for u in env.UNPARSERS for w in env.WRAPPERS for s in styles]


def classify(job, res):
    """returns None (ok / outside domain) or a violation dict"""
    family, n, cfg, src = job
    if res["stage"] in ("ok", "source", "timeout"):
        return None
    if res["stage"] == "crash" and not source_alone_ok(src):
        res["stage"] = "source"
        return None
    return {"payload": {"kind": "size", "family": family, "n": n, "cfg": list(cfg)},
            "diffs": ["%s stage failed: %s" % (res["stage"], res["err"])],
            "what": "family %s, N=%s, %s: CPython handles the source, the translation fails" % (family, n, env.cfg_name(cfg))}


def run(report):
    quick = report.tier == "quick"
    report.rule = RULE % (len(size.FAMILIES), list(size.SCHEDULE), list(size.NEST_SCHEDULE))
    switches = sorted(open_switches('C17'))
    max_n = 1000 if quick else 10000
    pool = ThreadPoolExecutor(env.NPROC)
    table = {}
    # level by level, so that a family stops at the first size CPython itself refuses
    alive = {f: True for f in size.FAMILIES}
    levels = max(len(size.SCHEDULE), len(size.NEST_SCHEDULE))
    for lvl in range(levels):
        jobs = []
        for fam in size.FAMILIES:
            sched = size.NEST_SCHEDULE if fam in size.NESTING else size.SCHEDULE
            if not alive[fam] or lvl >= len(sched):
                continue
            n = sched[lvl]
            if n > max_n:
                continue
            src = size.FAMILIES[fam](n)
            for cfg in cfgs_for(fam):
                sw = excluded(fam, n, cfg, switches)
                if sw:
                    report.exclusions[sw] = report.exclusions.get(sw, 0) + 1
                    continue
                jobs.append((fam, n, cfg, src))
        results = list(pool.map(lambda j: probe(j[3], j[2]), jobs))
        for job, res in zip(jobs, results):
            fam, n, cfg, src = job
            report.evaluations += 1
            v = classify(job, res)
            table.setdefault(fam, {}).setdefault(str(n), {})[env.cfg_name(cfg)] = res["stage"]
            report.classes["stage:" + res["stage"]] += 1
            if res["stage"] == "source":
                alive[fam] = False
                report.discarded["size-beyond-what-cpython-accepts-for-the-source"] += 1
                continue
            if n >= (60 if fam in size.NESTING else 300):
                report.nontrivial.add(key_hash(fam, n, cfg))
            if v:
                report.violations.append(v)
    report.extra["stage_table"] = table
    # dense sweep of block lengths
    djobs = dense_jobs(quick, switches) + extra_jobs(switches)
    nb = env.NPROC * 4
    batches = [djobs[i::nb] for i in range(nb)]
    dres = list(pool.map(lambda b: probe_batch([(j[3], j[2]) for j in b]), batches))
    dense_fail = 0
    for b, rs in zip(batches, dres):
        for job, res in zip(b, rs):
            report.evaluations += 1
            report.classes["dense:" + res["stage"]] += 1
            if job[1] > 250:
                report.nontrivial.add(key_hash("dense", job[0], job[1], job[2]))
            v = classify(job, res)
            if v:
                dense_fail += 1
                if dense_fail <= 3:
                    report.violations.append(v)
    report.extra["dense_block_lengths"] = {"families": list(DENSE_FAMILIES_QUICK if quick else DENSE_FAMILIES_THOROUGH),
                                           "max": 560 if quick else 1000, "probes": len(djobs), "failed": dense_fail}
    # compositions
    seed = env.sub_seed(report.seed, "C17", "compose")
    n_ex = 12 if quick else 80
    sizes1 = [3, 30, 100, 300] + ([] if quick else [1000])
    sizes2 = [3, 30, 100, 300] + ([] if quick else [1000, 3000])
    strat = st.tuples(st.sampled_from(size.COMPOSED), st.sampled_from(sizes1), st.sampled_from(sizes2),
                      st.sampled_from(env.ALL_CFGS))
    seen = set()

    def body(case):
        kind, n1, n2, cfg = case
        if n1 * n2 > (30000 if quick else 300000) or case in seen:
            return None
        seen.add(case)
        sw = excluded(kind, (n1, n2), cfg, switches)
        if sw:
            report.exclusions[sw] = report.exclusions.get(sw, 0) + 1
            return None
        src = size.composed(kind, n1, n2)
        res = probe(src, cfg)
        report.evaluations += 1
        report.classes["composed:" + res["stage"]] += 1
        if res["stage"] == "source":
            return None
        if n1 * n2 >= 3000:
            report.nontrivial.add(key_hash(kind, n1, n2, cfg))
        if len(report.samples) < 3:
            report.samples.append({"composition": kind, "n1": n1, "n2": n2, "cfg": env.cfg_name(cfg), "stage": res["stage"]})
        v = classify((kind, (n1, n2), cfg, src), res)
        return v

    calls, v = hyp.search(strat, body, seed, n_ex, shrink_calls=10)
    if v:
        report.violations.append(v)
    report.samples.insert(0, {"family": "stmts_aug", "n": 300, "source_head": size.FAMILIES["stmts_aug"](300)[:40] + "..."})
    for s in switches:
        report.exclusions.setdefault(s, 0)
    report.assumptions += [
        "each probe runs in a fresh interpreter with the default recursion limit",
        "a size at which the source itself cannot be compiled/run by CPython in that process is outside the domain",
        "a probe timeout (900 s) is inconclusive, never a violation",
    ]


def replay(payload):
    if payload.get("kind") != "size":
        raise env.HarnessError("unknown replay payload kind %r" % payload.get("kind"))
    fam, n, cfg = payload["family"], payload["n"], tuple(payload["cfg"])
    src = size.composed(fam, n[0], n[1]) if fam in size.COMPOSED else size.FAMILIES[fam](n)
    res = probe(src, cfg)
    v = classify((fam, n, cfg, src), res)
    return v["diffs"] if v else []
