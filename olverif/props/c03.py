"""C03 - the custom unparser round-trips every expression tree.

Domain   (1) exhaustive slot o child (depth 2) and slot o slot o child (depth 3) compositions
             over the G-EXPR catalogue; (2) Hypothesis-drawn deeper trees; (3) every
             expression of the standard-library sources; (4) trees emitted by the converter.
Oracle   norm(parse(expr_unparse(t))) == norm(t); for (4) additionally the differential
         parse(ast.unparse(t)) == parse(expr_unparse(t)).
"""
import ast
import os
import warnings

from .. import env, hyp
from ..gen import expr as gx
from ..runner import new_part, key_hash

RULE = ("(1) every (slot, child kind) and (slot, slot, child kind) composition over a catalogue "
        "of %d slots x %d child kinds, composed as source text with the child in parentheses "
        "and parsed (compositions the host parser rejects are skipped and counted); "
        "(2) Hypothesis-drawn deeper trees from %d multi-hole templates; (3) every top-level "
        "expression of the CPython standard library sources found in the image; (4) output "
        "trees of the converter on repository scripts, control-flow skeletons and generated "
        "programs, all 4 semantic configurations. Non-trivial: the tree has depth >= 3 "
        "(a compound child inside a compound parent) and, for (1), the outer slot is not "
        "bracket-delimited, so precedence decides the outcome; distinct by normalised tree."
        % (len(gx.SLOTS), len(gx.KINDS), len(gx.MULTI)))


def _unparse(tree):
    from oneliner.expr_unparse import expr_unparse
    with warnings.catch_warnings():
        warnings.simplefilter("error")  # an 'unknown node' warning means text was dropped
        return expr_unparse(tree)


def roundtrip_diffs(tree, want_text=False):
    """[] when the unparsed text parses back to the same tree"""
    try:
        txt = _unparse(tree)
    except RecursionError:
        return ["expr_unparse raised RecursionError"]
    except BaseException as e:
        return ["expr_unparse raised %s: %s" % (type(e).__name__, str(e)[:200])]
    if not isinstance(txt, str):
        return ["expr_unparse returned %r" % type(txt)]
    try:
        back = ast.parse(txt, mode="eval").body
    except (SyntaxError, ValueError, MemoryError, RecursionError) as e:
        return ["unparsed text does not parse (%s): %s" % (type(e).__name__, txt[:300])]
    if gx.norm(back) != gx.norm(tree):
        return ["tree changed: %s  ->  %s  ->  %s" % (_clip(_dump(tree)), _clip(txt), _clip(_dump(back)))]
    return []


def _dump(tree):
    try:
        return ast.dump(tree)
    except ValueError:  # int digit limit
        return repr(gx.norm(tree))[:400]


def _clip(s, n=220):
    return s if len(s) <= n else s[:n] + "..."


def check_source(part, src, nontrivial, tag):
    """src is expression source text; returns True if it was usable"""
    try:
        tree = ast.parse(src, mode="eval").body
    except (SyntaxError, ValueError, RecursionError, MemoryError):
        part["discarded"]["host-parser-rejects"] += 1
        return False
    part["evaluations"] += 1
    if nontrivial:
        part["nontrivial"].add(key_hash(src))
    diffs = roundtrip_diffs(tree)
    if diffs:
        part["violations"].append({"payload": {"kind": "expr", "source": src}, "diffs": diffs,
                                   "what": "expression does not round-trip (%s)" % tag})
    return True


# ------------------------------------------------------------------ (1) exhaustive families

def _depth2_shard(slot):
    part = new_part()
    for kind in gx.KIND_ORDER:
        if len(part["violations"]) >= 3:
            break
        check_source(part, gx.compose2(slot, kind), gx.nontrivial2(slot, kind), "depth2 %s<%s" % (slot, kind))
    part["samples"] = [gx.compose2(slot, "k_bin_add_r")]
    return part


def _depth3_shard(item):
    outer, mids = item
    part = new_part()
    for mid in mids:
        for kind in gx.KIND_ORDER:
            if len(part["violations"]) >= 3:
                return part
            nt = outer not in gx.DELIMITED or mid not in gx.DELIMITED
            check_source(part, gx.compose3(outer, mid, kind), nt, "depth3 %s<%s<%s" % (outer, mid, kind))
    part["samples"] = [gx.compose3(outer, mids[0], "k_if_else")]
    return part


# ------------------------------------------------------------------ (2) deep random trees

def _deep_shard(item):
    seed, n = item
    part = new_part()

    def body(src):
        sub = new_part()
        ok = check_source(sub, src, True, "random deep tree")
        part["evaluations"] += sub["evaluations"]
        part["discarded"].update(sub["discarded"])
        if ok:
            d = gx.tree_depth(ast.parse(src, mode="eval").body)
            part["classes"]["deep:depth>=%d" % min(8, d - d % 2)] += 1
            if d >= 3:
                part["nontrivial"] |= sub["nontrivial"]
            if len(part["samples"]) < 2 and d >= 5:
                part["samples"].append(src)
        return sub["violations"][0] if sub["violations"] else None

    calls, v = hyp.search(gx.deep_source_strategy(), body, seed, n, key=lambda s: s)
    if v is not None:
        part["violations"].append(v)
    return part


# ------------------------------------------------------------------ (3) corpus

def stdlib_files():
    root = os.path.dirname(os.__file__)
    out = []
    for d, ds, fs in os.walk(root):
        ds[:] = sorted(x for x in ds if x not in ("site-packages", "__pycache__", "lib2to3"))
        for f in sorted(fs):
            if f.endswith(".py"):
                out.append(os.path.join(d, f))
    return out


def _corpus_shard(files):
    part = new_part()
    for path in files:
        try:
            with open(path, encoding="utf8") as fh:
                src = fh.read()
            tree = ast.parse(src)
        except (SyntaxError, ValueError, UnicodeDecodeError, RecursionError, OSError):
            part["discarded"]["corpus-file-unparsable"] += 1
            continue
        part["extra"]["corpus_files"] = part["extra"].get("corpus_files", 0) + 1
        for e in gx.top_level_exprs(tree):
            part["evaluations"] += 1
            d = None
            if not isinstance(e, (ast.Name, ast.Constant)):
                d = gx.tree_depth(e)
                if d >= 3:
                    part["nontrivial"].add(key_hash(ast.dump(e)))
            diffs = roundtrip_diffs(e)
            if diffs:
                if len(part["violations"]) < 3:
                    part["violations"].append({
                        "payload": {"kind": "ast", "dump": ast.dump(e)}, "diffs": diffs,
                        "what": "stdlib expression %s:%d does not round-trip" % (path, e.lineno)})
                else:
                    part["extra"]["more_corpus_failures"] = part["extra"].get("more_corpus_failures", 0) + 1
    return part


# ------------------------------------------------------------------ (4) converter output

def repo_scripts():
    d = os.path.join(env.REPO, "oneliner_tests")
    out = []
    for dd, ds, fs in os.walk(d):
        for f in sorted(fs):
            if f.endswith(".py") and "script" in dd:
                out.append(os.path.join(dd, f))
    return out


def converter_tree(src, sem_cfg):
    import random
    import symtable
    from oneliner.convert import convert
    random.seed(0)
    cfg = env.make_cfg(("oneliner",) + tuple(sem_cfg))
    return convert(ast.parse(src), symtable.symtable(src, "<string>", "exec"), cfg)


def check_converter_tree(part, src, sem_cfg, tag):
    try:
        tree = converter_tree(src, sem_cfg)
    except BaseException:
        part["discarded"]["converter-rejects"] += 1
        return
    part["evaluations"] += 1
    part["nontrivial"].add(key_hash("conv", src, sem_cfg))
    part["classes"]["converter-tree"] += 1
    diffs = roundtrip_diffs(tree)
    if not diffs:
        # differential oracle: the stdlib unparser's reading of the same tree
        try:
            ref = ast.parse(ast.unparse(ast.fix_missing_locations(tree)), mode="eval").body
            got = ast.parse(_unparse(tree), mode="eval").body
            if gx.norm(ref) != gx.norm(got):
                diffs = ["ast.unparse and expr_unparse disagree on a converter-built tree"]
        except (SyntaxError, ValueError, RecursionError):
            part["discarded"]["ast.unparse-cannot-print"] += 1
    if diffs:
        part["violations"].append({
            "payload": {"kind": "conv-tree", "src": src, "sem_cfg": list(sem_cfg)},
            "diffs": diffs, "what": "converter-emitted tree does not round-trip (%s)" % tag})


def _conv_shard(item):
    from ..gen import cf
    kind, arg = item
    part = new_part()
    if kind == "scripts":
        for path in arg:
            with open(path, encoding="utf8") as fh:
                src = fh.read()
            for sem in env.SEMANTIC_CFGS:
                check_converter_tree(part, src, sem, os.path.basename(path))
    elif kind == "cf":
        placement, n, shard, nshards = arg
        sks = cf.enumerate_skeletons(n, cf.placement_in_func(placement))
        for idx in range(shard, len(sks), nshards):
            if len(part["violations"]) >= 3:
                break
            check_converter_tree(part, cf.program(sks[idx], placement),
                                 env.SEMANTIC_CFGS[idx % 4], "skeleton")
    elif kind == "prog":
        try:
            from ..gen import prog
        except ImportError:
            return part
        seed, n = arg

        def body(p):
            sub = new_part()
            check_converter_tree(sub, p.source, env.SEMANTIC_CFGS[len(p.source) % 4], "generated program")
            for k in ("evaluations",):
                part[k] += sub[k]
            part["nontrivial"] |= sub["nontrivial"]
            part["classes"].update(sub["classes"])
            part["discarded"].update(sub["discarded"])
            return sub["violations"][0] if sub["violations"] else None

        calls, v = hyp.search(prog.program_strategy(), body, seed, n, key=lambda p: p.source)
        if v is not None:
            part["violations"].append(v)
    return part


# ------------------------------------------------------------------ run / replay

def host_roundtrip_shard(item):
    """the round trip under ANOTHER host interpreter (worker op 'roundtrip'): the unparser has
    host-dependent code (f-string quoting before 3.12, `from ast import *` name clashes)"""
    from .. import interp
    host, sources, prop = item
    part = new_part()
    pl = interp.Pool()
    try:
        if host not in pl.found:
            part["discarded"]["host-%s-not-found" % host] += len(sources)
            return part
        for k in range(0, len(sources), 2000):
            chunk = sources[k:k + 2000]
            r = pl.get(host).call({"op": "roundtrip", "repo": env.REPO, "sources": chunk}, timeout=600)
            if r.get("worker_error") or not r.get("ok"):
                raise env.HarnessError("host worker %s: %s" % (host, r.get("err")))
            part["evaluations"] += r["parsed"]
            part["classes"]["host:" + host] += r["parsed"]
            part["discarded"]["host-%s-parser-rejects" % host] += len(chunk) - r["parsed"]
            for idx, why in r["failures"]:
                part["nontrivial"].add(key_hash(host, chunk[idx]))
                if len(part["violations"]) < 3:
                    part["violations"].append({
                        "payload": {"kind": "expr-host", "source": chunk[idx], "host": host},
                        "diffs": [why], "what": "round trip fails on host %s" % host})
        part["nontrivial"] = len(sources) if not part["violations"] else part["nontrivial"]
    finally:
        pl.close()
    return part


def replay_expr_host(payload):
    from .. import interp
    pl = interp.Pool()
    try:
        r = pl.get(payload["host"]).call({"op": "roundtrip", "repo": env.REPO, "sources": [payload["source"]]}, timeout=120)
        if r.get("worker_error") or not r.get("ok"):
            raise env.HarnessError("host worker %s: %s" % (payload["host"], r.get("err")))
        return [why for idx, why in r["failures"]]
    finally:
        pl.close()


def host_sources(seed, n_depth3):
    import random as _r
    out = [gx.compose2(slot, kind) for slot in gx.SLOT_ORDER for kind in gx.KIND_ORDER]
    from . import c04
    out += c04.field_literal_positions()
    rng = _r.Random(seed)
    for _ in range(n_depth3):
        out.append(gx.compose3(rng.choice(gx.SLOT_ORDER), rng.choice(gx.SLOT_ORDER), rng.choice(gx.KIND_ORDER)))
    return out


def run(report):
    quick = report.tier == "quick"
    report.rule = RULE
    # (0) host dimension
    from .. import hosts as _hosts
    others = _hosts.available_other_hosts()
    if others:
        srcs = host_sources(env.sub_seed(report.seed, "C03", "host"), 20000 if quick else 400000)
        per = max(1, env.NPROC // len(others))
        for part in env.pmap(host_roundtrip_shard, [(h, srcs[j::per], "C03") for h in others for j in range(per)]):
            report.absorb(part)
        report.extra["other_hosts"] = others
        report.extra["host_sources"] = len(srcs)
    # (1)
    for part in env.pmap(_depth2_shard, gx.SLOT_ORDER):
        report.absorb(part)
    d2 = report.evaluations
    items = []
    for outer in gx.SLOT_ORDER:
        mids = gx.SLOT_ORDER
        half = len(mids) // 2
        items += [(outer, mids[:half]), (outer, mids[half:])]
    for part in env.pmap(_depth3_shard, items, chunksize=2):
        report.absorb(part)
    report.extra["exhaustive_family"] = {"slots": len(gx.SLOTS), "child_kinds": len(gx.KINDS),
                                         "depth2_trees": d2, "depth3_trees": report.evaluations - d2}
    report.exhaustive = True
    report.notes.append("exhaustive:true refers to the depth-2 and depth-3 composition family only")
    # (2)
    n_deep = 400 if quick else 20000
    items = [(env.sub_seed(report.seed, "C03", "deep", i), n_deep) for i in range(env.NPROC)]
    before = report.evaluations
    for part in env.pmap(_deep_shard, items):
        report.absorb(part)
    report.extra["random_deep_trees"] = report.evaluations - before
    # (3)
    files = stdlib_files()
    if not files:
        report.notes.append("standard library sources not found; corpus family skipped")
    else:
        if quick:
            import random as _r
            rng = _r.Random(env.sub_seed(report.seed, "C03", "corpus"))
            files = sorted(rng.sample(files, max(1, len(files) // 3)))
        n = env.NPROC * 4
        before = report.evaluations
        for part in env.pmap(_corpus_shard, [files[i::n] for i in range(n)]):
            report.absorb(part)
        report.extra["corpus_expressions"] = report.evaluations - before
    # (4)
    from ..gen import cf
    items = [("scripts", repo_scripts())]
    for placement in cf.PLACEMENTS:
        for nn in (3, 4):
            cf.count(nn, cf.placement_in_func(placement))
            nsh = 4 if nn == 3 else 16
            items += [("cf", (placement, nn, s, nsh)) for s in range(nsh)]
    items += [("prog", (env.sub_seed(report.seed, "C03", "prog", i), 60 if quick else 1500))
              for i in range(env.NPROC)]
    before = report.evaluations
    for part in env.pmap(_conv_shard, items):
        report.absorb(part)
    report.extra["converter_trees"] = report.evaluations - before
    # (5) optional coverage-guided stage (thorough tier): atheris/libFuzzer over a structured decoder
    if not quick:
        _fuzz_stage(report)
    report.samples = report.samples[:10]
    report.assumptions += [
        "ast.parse of the host interpreter (3.12) defines which compositions are expressions",
        "tree equality is ast-field equality modulo ctx, Constant.kind, positions and the "
        "Constant(-n)/USub(Constant(n)) normal form",
    ]


def _fuzz_one(item):
    import subprocess
    import sys
    import tempfile
    seed, runs = item
    art = tempfile.mkdtemp(prefix="olverif-fuzz-", dir="/tmp")
    try:
        p = subprocess.run([sys.executable, "-m", "olverif.fuzz_expr", art, "-runs=%d" % runs, "-seed=%d" % (seed % (2 ** 31) or 1),
                            "-max_len=96", "-print_final_stats=1"], capture_output=True, text=True, timeout=3600)
        done = 0
        for line in p.stderr.splitlines():
            if line.startswith("stat::number_of_executed_units:"):
                done = int(line.split(":")[-1])
        src = None
        f = os.path.join(art, "failing_source.txt")
        if os.path.exists(f):
            with open(f, encoding="utf8") as fh:
                src = fh.read().split("\n")[0]
        return {"done": done, "rc": p.returncode, "source": src, "tail": p.stderr[-300:]}
    finally:
        import shutil
        shutil.rmtree(art, ignore_errors=True)


def _fuzz_stage(report):
    try:
        import atheris  # noqa: F401
    except ImportError:
        report.notes.append("atheris is not importable: the optional coverage-guided stage was skipped")
        return
    items = [(env.sub_seed(report.seed, "C03", "fuzz", i), 120000) for i in range(env.NPROC)]
    total = 0
    for r in env.pmap(_fuzz_one, items):
        total += r["done"]
        if r["source"]:
            part = new_part()
            check_source(part, r["source"], True, "coverage-guided stage")
            if part["violations"]:
                report.violations += part["violations"]
            else:
                report.notes.append("fuzz stage reported a failure that does not replay: %r" % r["source"][:200])
        elif r["rc"] != 0:
            report.notes.append("fuzz process ended with status %s: %s" % (r["rc"], r["tail"][-150:]))
    report.evaluations += total
    report.extra["coverage_guided_executions"] = total


def _ast_from_dump(dump):
    ns = dict(vars(ast))
    ns.update({"inf": float("inf"), "nan": float("nan")})
    return eval(dump, ns)


def replay(payload):
    if payload.get("kind") == "expr-host":
        return replay_expr_host(payload)
    k = payload.get("kind")
    if k == "expr":
        try:
            tree = ast.parse(payload["source"], mode="eval").body
        except SyntaxError as e:
            return ["witness source does not parse on this host: %s" % e]
        return roundtrip_diffs(tree)
    if k == "ast":
        return roundtrip_diffs(_ast_from_dump(payload["dump"]))
    if k == "conv-tree":
        part = new_part()
        check_converter_tree(part, payload["src"], tuple(payload["sem_cfg"]), "replay")
        out = []
        for v in part["violations"]:
            out += v["diffs"]
        return out
    raise env.HarnessError("unknown replay payload kind %r" % k)
