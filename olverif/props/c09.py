"""C09 - helper names never capture or clobber user identifiers.

Domain   (1) the finite matrix (risky identifier) x (role) x (feature that introduces helper
             names), swept completely; (2) metamorphic alpha-renaming of G-PROG programs onto the
             risky identifier set; (3) invariant on every conversion of the sweep: the suffixes
             handed out by the fresh-name generator within one conversion are pairwise distinct
             and every __ol_ identifier in the output carries one of them (or is one of the fixed
             reserved helpers).
Oracle   stdout / globals equality with the original (C01 oracle); for (2) both the program and
         its renamed twin must reproduce their own originals.
"""
import re

from .. import env, hyp
from ..gen import prog
from ..kit import run_code
from ..oracle import check_program, program_payload, replay_program, reduce_violation
from ..runner import new_part, key_hash, open_switches

RULE = ("(1) every cell of {%d identifiers: _, __, k, v, self, it, itertools, importlib, the builtins "
        "the lowering calls by name, look-alike controls} x {8 roles: global, function local, parameter, "
        "loop target, function name, class name, class attribute, import alias} x {%d features: while, "
        "while+break, for, for+break, class, __init_subclass__, super, import, dotted import, from-import, "
        "destructuring, augmented subscript/attribute/name, slice and attribute stores, global store, "
        "nonlocal, if, return in loop, chained assignment, class decorator, comprehension, lambda} x both "
        "wrappers (unparser alternating); (2) Hypothesis-drawn programs converted as generated and after a "
        "consistent renaming of their identifiers onto the risky set; (3) fresh-suffix invariant on every "
        "conversion; (4) %d programs in which two different entities (nested / redefined / sibling functions "
        "and classes, a function and its parameter or local, methods, decorated definitions, loop targets, "
        "import aliases) carry two different or the SAME identifier, %d name choices each. "
        "Non-trivial: the cell's output really contains a helper name (checked on the output "
        "text); distinct by cell.")

BUILTINS_CALLED = ["type", "setattr", "hasattr", "globals", "locals", "iter", "next", "tuple", "list",
                   "slice", "classmethod", "__import__"]
IDS = ["_", "__", "k", "v", "self", "it", "itertools", "importlib"] + BUILTINS_CALLED + \
      ["___", "_k", "ol_x", "__olx", "__ol_k", "__ol", "__ol_itertools", "super", "getattr", "print", "len", "dict",
       # names the symbol table gives to implicit scopes (hosts before 3.12 recognise them by name)
       "listcomp", "genexpr", "setcomp", "dictcomp", "lambda_", "top",
       # plausible names of parameters of helper lambdas
       "bases", "kwds", "name", "ns", "args", "kwargs", "value", "obj", "loader", "cls", "meta"]
# identifiers starting with the reserved prefix are outside the property ("not starting with __ol_")
RESERVED = [i for i in IDS if i.startswith("__ol_")]

FEATS = {
    "while": "c0 = 0\nwhile c0 < 2:\n    c0 += 1\n",
    "while_break": "c0 = 0\nwhile True:\n    c0 += 1\n    if c0 > 2:\n        break\nelse:\n    c0 = -1\n",
    "for": "for e0 in [1, 2]:\n    c0 = e0\n",
    "for_break": "for e0 in [1, 2, 3]:\n    if e0 == 2:\n        break\nelse:\n    e0 = -1\nc0 = e0\n",
    "class": "class K0:\n    a0 = 1\n    def m0(s0):\n        return s0.a0\nc0 = K0().m0()\n",
    "class_isc": "class B0:\n    def __init_subclass__(c1, **kw0):\n        c1.t0 = 1\nclass K0(B0):\n    pass\nc0 = K0.t0\n",
    "class_super": "class B0:\n    def m0(s0):\n        return 1\nclass K0(B0):\n    def m0(s0):\n        return super().m0() + 1\nc0 = K0().m0()\n",
    "class_deco": "def d0(c1):\n    c1.t0 = 2\n    return c1\n@d0\nclass K0:\n    pass\nc0 = K0.t0\n",
    "class_meta": "class M0(type):\n    pass\nclass K0(int, metaclass=M0):\n    a0 = 3\nc0 = (K0.a0, type(K0).__name__)\n",
    "import": "import math\nc0 = math.floor(1.5)\n",
    "import_dotted": "import os.path as p0\nc0 = p0.basename('a/b')\n",
    "import_dotted_noalias": "import os.path\nc0 = os.path.basename('a/b')\n",
    "from_import": "from math import floor as f0\nc0 = f0(2.5)\n",
    "from_import_twice_guarded": "if not 1:\n    from math import ceil as e0\nfrom math import floor as f0\nfor z0 in []:\n    from os.path import join as j0\nfrom os.path import basename as b0\nc0 = (f0(2.5), b0('a/b'))\n",
    "destructure": "a0, (b0, *r0) = 1, (2, 3, 4)\nc0 = [a0, b0, r0]\n",
    "destructure2": "(a0, b0), d0, [e0, (f0, *g0)] = (1, 2), 3, [4, (5, 6)]\nc0 = [a0, b0, d0, e0, f0, g0]\n",
    "chained_destr": "(a0, b0) = d0 = [1, 2]\n[e0, *f0] = g0 = h0 = (3, 4, 5)\nc0 = (a0, b0, d0, e0, f0, g0, h0 is g0)\n",
    "aug_sub": "d0 = {'q': 1}\nd0['q'] += 1\nl0 = [1, 2, 3]\nl0[0:1] += [9]\nc0 = (d0, l0)\n",
    "aug_attr": "class O0:\n    pass\no0 = O0()\no0.a = 1\no0.a += 1\nc0 = o0.a\n",
    "aug_name": "x0 = [1]\ny0 = x0\nx0 += [2]\nc0 = (x0, y0)\n",
    "slice_assign": "l0 = [1, 2, 3]\nl0[1:] = [7]\nc0 = l0\n",
    "attr_assign": "class O0:\n    pass\no0 = O0()\no0.a = 5\nc0 = o0.a\n",
    "chained": "a0 = b0 = [1]\nc0 = a0 is b0\n",
    "global_store": "def f0():\n    global g0\n    g0 = 3\nf0()\nc0 = g0\n",
    "nonlocal": "def f0():\n    n0 = 0\n    def h0():\n        nonlocal n0\n        n0 += 1\n    h0()\n    return n0\nc0 = f0()\n",
    "if": "c0 = 1\nif c0:\n    c0 = 2\nelse:\n    c0 = 3\n",
    "func_return": "def f0(a0):\n    for e0 in [1, 2]:\n        if e0 == a0:\n            return e0\n    return 0\nc0 = f0(2)\n",
    "comprehension": "c0 = [e0 * 2 for e0 in range(3)] + [w0 for w0 in 'ab']\n",
    "lambda": "g0 = lambda a0, b0=2: a0 + b0\nc0 = g0(1)\n",
    "for_walrus_iter": "for e0 in (w0 := [1, 2]):\n    pass\nc0 = (e0, w0)\n",
}
# which builtins the lowering of a feature calls by plain name (open finding F24: cell skipped)
FEATURE_BUILTINS = {
    "while": ["__import__", "hasattr"], "while_break": ["__import__", "hasattr"], "for": [],
    "for_break": ["type", "setattr", "iter", "next"],
    "class": ["type", "setattr"], "class_isc": ["type", "setattr", "classmethod"], "class_super": ["type", "setattr"],
    "class_deco": ["type", "setattr"], "class_meta": ["type", "setattr"],
    "import": ["__import__"], "import_dotted": ["__import__"], "import_dotted_noalias": ["__import__"],
    "from_import": ["__import__", "globals", "locals"], "from_import_twice_guarded": ["__import__", "globals", "locals"],
    "destructure": ["tuple", "list"], "destructure2": ["tuple", "list"], "chained_destr": ["tuple", "list"], "aug_sub": ["hasattr", "slice"], "aug_attr": ["hasattr", "setattr", "type"],
    "aug_name": ["hasattr"], "slice_assign": ["slice"], "attr_assign": ["setattr", "type"], "chained": [],
    "global_store": ["globals"], "nonlocal": ["hasattr"], "if": [], "func_return": ["type", "setattr", "iter", "next"],
    "comprehension": [], "lambda": [], "for_walrus_iter": [],
}
ROLES = {
    "global": "{N} = 41\n{F}print({N}, c0)\n",
    "local": "def R0():\n    {N} = 41\n{FI}    return {N}, c0\nprint(R0())\n",
    "param": "def R0({N}):\n{FI}    return {N}, c0\nprint(R0(41))\n",
    "looptarget": "for {N} in [40, 41]:\n    pass\n{F}print({N}, c0)\n",
    "funcname": "def {N}():\n    return 41\n{F}print({N}(), c0)\n",
    "classname": "class {N}:\n    z0 = 41\n{F}print({N}.z0, c0)\n",
    "classattr": "class Q0:\n    {N} = 41\n{FI}print(Q0.{N}, Q0.c0)\n",
    "importalias": "import string as {N}\n{F}print({N}.digits, c0)\n",
    # the identifier is a captured variable (kept in the nonlocal dictionary) AND a lambda's **kwargs / *args
    "lambdastar": "def R0():\n    {N} = 41\n    def cap0():\n        nonlocal {N}\n        {N} += 1\n    cap0()\n    h0 = lambda *a1, **{N}: sorted({N})\n    i0 = lambda *{N}: len({N})\n{FI}    return {N}, h0(zz=1), i0(1, 2), c0\nprint(R0())\n",
    # a global declaration three function levels below a local of the same name
    "globalbelow": "{N} = 41\ndef R0():\n    {N} = 7\n    def mid0():\n        def in0():\n            global {N}\n            return {N}\n        return in0()\n    return mid0(), {N}\n{F}print(R0(), {N}, c0)\n",
    # the identifier is the NAME OF A CLASS KEYWORD (consumed by __init_subclass__), next to a metaclass
    "classkeyword": "class B9:\n    def __init_subclass__(c9, **kw9):\n        c9.kw9 = sorted(kw9.items())\nclass M9(type):\n    pass\nclass Q0(B9, metaclass=M9, {N}=41):\n    pass\nclass Q1(B9, {N}=42):\n    pass\n{F}print(Q0.kw9, Q1.kw9, c0)\n",
    # ... a local that exists only because of an import, three levels above a global declaration
    "globalbelow_import": "{N} = 41\ndef R0():\n    import string as {N}\n    def mid0():\n        def in0():\n            global {N}\n            return {N}\n        return in0()\n    return mid0(), {N}.digits\n{F}print(R0(), {N}, c0)\n",
    # ... a variable of a lambda bound by a walrus inside a comprehension, next to a captured variable of that spelling
    "lambdawalruscomp": "def R0():\n    {N} = 41\n    def cap0():\n        nonlocal {N}\n        {N} += 1\n    cap0()\n    h0 = lambda s1: ([({N} := v1) for v1 in s1], {N})[1]\n{FI}    return {N}, h0([7, 8]), {N}, c0\nprint(R0())\n",
    # ... the target AND the first iterable of a comprehension, while captured / a class attribute
    "compsamename": "def R0():\n    {N} = [1, 2]\n    def cap0():\n        nonlocal {N}\n        {N} = {N} + [3]\n    cap0()\n    r1 = [{N} * 2 for {N} in {N}]\n    r3 = [[{N} + e1 for e1 in [0]] for {N} in [5, 6] if [{N} for e2 in [1]]]\n    r4 = [[[{N} for e3 in [0]] for e4 in [0]] for {N} in [7]]\n{FI}    return {N}, r1, r3, r4, c0\nprint(R0())\nclass Q0:\n    {N} = [4]\n    r2 = [{N} for {N} in {N}]\nprint(Q0.r2)\n",
    # the identifier names a function that has parameters and holds a comprehension
    # the identifier names a function / class whose block captures, declares and shadows names (the symtable
    # module itself tells the module block apart by the NAME of the block)
    "funccaptured": "def {N}(a1):\n    v1 = a1\n    def in1():\n        nonlocal v1\n        v1 += 1\n        return v1 + a1\n    r1 = [v1 + e1 for e1 in range(2)]\n    return in1(), v1, r1, (lambda: a1)()\n{F}print({N}(1), c0)\n",
    "funcglobaldecl": "g1 = 1\ndef {N}(p1=2):\n    global g1\n    g1 = g1 + p1\n    h1 = 7\n    def in1():\n        global h1\n        h1 = 'glob'\n        return g1, h1\n    return in1(), h1\n{F}print({N}(), g1, h1, c0)\n",
    "classnamedbody": "class {N}:\n    a1 = 1\n    b1 = a1 + 1\n    def m1(self, d1=a1):\n        return d1 + self.b1\n    l1 = [a1 for e1 in range(1)]\n    a1 = a1 + 10\n{F}print({N}().m1(), {N}.l1, {N}.a1, c0)\n",
    "funcinfunc": "def R0(z1):\n    def {N}(y1):\n        w1 = y1 + z1\n        def in1():\n            nonlocal w1\n            w1 += 1\n            return w1\n        return in1() + y1\n    return {N}(1)\n{F}print(R0(2), c0)\n",
    # a lambda whose DEFAULT is a lambda with a parameter spelled like a captured variable that the outer lambda reads
    "lambdadefaultlambda": "def R0():\n    {N} = 1\n    def cap0():\n        nonlocal {N}\n        {N} += 1\n    cap0()\n    gq9 = lambda fq9=lambda {N}: {N} * 10, *aq9, kq9=lambda *{N}: len({N}): (fq9({N}), kq9({N}, {N}), {N})\n{FI}    return gq9(), {N}, c0\nprint(R0())\n",
    "classinfuncnamed": "def {N}(p1, q1=2):\n    r1 = p1 + q1\n    class C1:\n        a1 = p1\n        b1 = [r1 for e1 in range(1)]\n        def m1(self):\n            return p1 + q1 + r1\n    r1 += 1\n    return C1.a1, C1.b1, C1().m1()\n{F}print({N}(1), c0)\n",
    # keyword-only lambda parameters spelled like a captured variable
    "lambdakwonly": "def R0():\n    {N} = 41\n    def cap0():\n        nonlocal {N}\n        {N} += 1\n    cap0()\n    hq9 = lambda *, {N}: {N} * 2\n    iq9 = lambda aq9, *, {N}=5, **kq9: ({N}, aq9)\n{FI}    return {N}, hq9({N}=3), iq9(1), iq9(2, {N}=7), c0\nprint(R0())\n",
    # the identifier is read by lambdas / comprehensions INSIDE loops (whose lowering introduces helper variables)
    "readinloops": "{N} = 41\nqq9 = 0\nrq9 = []\nwhile qq9 < 2:\n    qq9 += 1\n    rq9.append((lambda: {N})())\nfor eq9 in [1, 2]:\n    rq9.append([(lambda: {N})() for zq9 in [0]])\n    if eq9 == 2:\n        break\n{F}print({N}, rq9, c0)\n",
    # a class body that declares the name global, below a function with a local of that spelling
    "classglobaldecl": "{N} = 41\ndef R0():\n    {N} = 7\n    class C1:\n        global {N}\n        a1 = {N}\n        def m1(s1):\n            return {N}\n        b1 = [e1 for e1 in (a1, {N})]\n    return C1.a1, C1().m1(), C1.b1, {N}\n{F}print(R0(), {N}, c0)\n",
    # ... the same while NO nested function captures the function's local (it is a plain variable of the lowered function)
    "classglobaldecl2": "{N} = 41\ndef R0():\n    {N} = 7\n    class C1:\n        global {N}\n        a1 = {N}\n        {N} = {N} + 1\n        b1 = [e1 for e1 in (a1, {N})]\n    return C1.a1, C1.b1, {N}\n{F}print(R0(), {N}, c0)\n",
    "readinloopsfunc": "{N} = 41\ndef R0():\n    qq9 = 0\n    rq9 = []\n    while qq9 < 2:\n        qq9 += 1\n        rq9.append((lambda: {N})())\n    for eq9 in [1, 2]:\n        rq9.append([(lambda: {N})() for zq9 in [0]])\n        if eq9 == 2:\n            break\n    return rq9\n{F}print({N}, R0(), c0)\n",
    "funcwithcomp": "def {N}(a1, b1=2):\n    return [e1 + a1 for e1 in range(b1)]\n{F}print({N}(1), c0)\n",
}
_OL = re.compile(r"__ol_[A-Za-z0-9_]+")
_SUFFIXED = re.compile(r"^__ol_[a-z]+_([a-z]{10})$")
FIXED_HELPERS = ("__ol_iter_wrapper",)


def cell_source(ident, role, feat):
    f = FEATS[feat]
    fi = "".join("    " + l + "\n" for l in f.splitlines())
    return ROLES[role].replace("{N}", ident).replace("{FI}", fi).replace("{F}", f)


def cell_excluded(ident, role, feat, switches):
    if ident in RESERVED:
        return "reserved-prefix-not-a-user-identifier"
    if "user-binds-builtin-called-by-lowering" in switches and ident in BUILTINS_CALLED:
        used = set(FEATURE_BUILTINS[feat])
        # the role's own binding statement is lowered too
        used |= set({"classname": ["type", "setattr"], "importalias": ["__import__"],
                     "globalbelow": ["globals"], "lambdastar": ["hasattr"], "classkeyword": ["type", "setattr", "classmethod"],
                     "globalbelow_import": ["globals", "__import__"], "lambdawalruscomp": ["hasattr"],
                     "compsamename": ["type", "setattr"], "funccaptured": ["hasattr"],
                     "funcglobaldecl": ["globals", "hasattr"], "classnamedbody": ["type", "setattr"],
                     "funcinfunc": ["hasattr"], "lambdadefaultlambda": ["hasattr"],
                     "classinfuncnamed": ["hasattr", "type", "setattr"], "lambdakwonly": ["hasattr"],
                     "readinloops": ["__import__", "hasattr", "type", "setattr", "iter", "next"],
                     "classglobaldecl": ["type", "setattr", "globals"], "classglobaldecl2": ["type", "setattr", "globals"],
                     "readinloopsfunc": ["__import__", "hasattr", "type", "setattr", "iter", "next"]}.get(role, []))
        if role == "classattr":
            return None   # a class attribute does not shadow a builtin for the generated code
        if ident in used:
            return "user-binds-builtin-called-by-lowering"
    if "private-name-mangling" in switches and role in ("classattr", "compsamename") \
            and ident.startswith("__") and not ident.endswith("__"):
        return "private-name-mangling"
    return None


class SuffixMonitor(object):
    """wraps oneliner.utils.unique_id for the duration of one conversion"""

    def __init__(self):
        import oneliner.utils as u
        self.u = u
        self.orig = u.unique_id
        self.handed = []

    def __enter__(self):
        def wrapped():
            s = self.orig()
            self.handed.append(s)
            return s
        self.u.unique_id = wrapped
        return self

    def __exit__(self, *a):
        self.u.unique_id = self.orig

    def diffs(self, text):
        d = []
        if len(set(self.handed)) != len(self.handed):
            d.append("the fresh-name generator handed out the same suffix twice within one conversion")
        allowed = set(self.handed)
        for name in set(_OL.findall(text)):
            m = _SUFFIXED.match(name)
            if m is None:
                continue      # a fixed reserved helper (no random part): allowed by the property
            if m.group(1) not in allowed:
                d.append("helper name %s carries a suffix that was not handed out during this conversion "
                         "(left over from an earlier one?)" % name)
        return d


# flags and return values are assigned at several sites; the counter of a lowered while loop is
# one logical temporary that appears as the comprehension variable and as the parameter of the
# takewhile predicate (two scopes that cannot interfere)
MULTI_SITE = ("retv", "ret", "break", "interrupt", "while", "augass")  # augass: loaded value, rebound by the fallback
# Only temporaries that by their nature hold the value of ONE statement are required to be bound at
# one site: a second binding site means two statements (or two levels of one pattern) share the
# name. Other purposes are not constrained, so a refactoring that introduces a new helper that is
# legitimately assigned in several places does not raise an alarm.
SINGLE_SITE = ("assign", "sllice", "augobj", "mod", "for")


def binding_site_diffs(text):
    """every other temporary is introduced for one purpose and bound at exactly one site"""
    import ast
    try:
        tree = ast.parse(text, mode="eval")
    except (SyntaxError, RecursionError, MemoryError, ValueError):
        return []
    sites = {}
    for node in ast.walk(tree):
        names = []
        if isinstance(node, ast.NamedExpr):
            names = [node.target.id]
        elif isinstance(node, ast.comprehension):
            names = [n.id for n in ast.walk(node.target) if isinstance(n, ast.Name)]
        elif isinstance(node, ast.Lambda):
            a = node.args
            names = [x.arg for x in a.posonlyargs + a.args + a.kwonlyargs] + [x.arg for x in (a.vararg, a.kwarg) if x]
        for n in names:
            if n.startswith("__ol_"):
                sites[n] = sites.get(n, 0) + 1
    out = []
    for n, c in sorted(sites.items()):
        parts = n.split("_")
        purpose = parts[3] if len(parts) > 4 else ""
        if c > 1 and purpose in SINGLE_SITE and _SUFFIXED.match(n):
            out.append("temporary %s is bound at %d different sites of one output (two temporaries share a name)" % (n, c))
    return out


def _fixed_reserved(name):
    # reserved names without a random part, introduced by the helper bootstrap / class loader
    return name in ("__ol_itertools", "__ol_importlib", "__ol_k", "__ol_v", "__ol_iter_wrapper")


def check_cell(part, ident, role, feat, cfgs):
    src = cell_source(ident, role, feat)
    try:
        compile(src, "<cell>", "exec")
    except (SyntaxError, SystemError):    # SystemError: CPython's own compiler trips over `super` as a comprehension target in a class
        part["discarded"]["cell-not-valid-python"] += 1
        return
    o = run_code(src, "exec")
    if not o["ok"]:
        part["discarded"]["original-raises:" + str(o["err"])] += 1
        return
    part["evaluations"] += 1
    part["classes"]["role:" + role] += 1
    helper_seen = False
    for cfg in cfgs:
        with SuffixMonitor() as mon:
            try:
                text = env.convert(src, cfg, 0)
                err = None
            except BaseException as e:
                text, err = "", "conversion raised %s: %s" % (type(e).__name__, str(e)[:160])
        if err:
            diffs = [err]
        else:
            if "__ol_" in text or re.search(r"\b_\b|\b__\b", text):
                helper_seen = True
            diffs = mon.diffs(text) + binding_site_diffs(text)
            if not diffs:
                status, failures, _ = check_program(src, [cfg], orig=o)
                diffs = failures[0][1] if status == "fail" else []
        if diffs:
            part["violations"].append({"payload": program_payload(src, cfg), "diffs": diffs,
                                       "what": "identifier %r as %s with feature %s (%s)" % (ident, role, feat, env.cfg_name(cfg))})
            break
    if helper_seen:
        part["nontrivial"].add(key_hash(ident, role, feat))


def _cfgs(i):
    u = env.UNPARSERS[i % 2]
    return [(u, "chain_call", "if_expr"), (u, "list", "short_circuit")]


def _matrix_shard(item):
    idx, nshards, switches = item
    part = new_part()
    cells = [(n, r, f) for n in IDS for r in ROLES for f in FEATS]
    for k in range(idx, len(cells), nshards):
        n, r, f = cells[k]
        sw = cell_excluded(n, r, f, switches)
        if sw:
            part["exclusions"][sw] = part["exclusions"].get(sw, 0) + 1
            continue
        check_cell(part, n, r, f, _cfgs(k))
    if idx == 0:
        part["samples"].append(cell_source("_", "param", "while_break"))
        part["samples"].append(cell_source("k", "classname", "class"))
    return part


# ------------------------------------------------------------------ (2) alpha renaming

RENAME_POOL = ["_", "__", "k", "v", "self", "it", "itertools", "importlib", "___", "_k", "ol_x", "_ol_", "__ol",
               "iter_wrapper", "it_", "__k__", "_v", "cls", "nonlocal_", "ret", "retv", "loader", "classnsp",
               "assign", "augass", "mod", "interrupt", "break_", "for_", "bases", "kwds", "deco", "while_"]
_GEN_ID = re.compile(r"\b([a-z]{1,4}|deco|rec)(\d+)\b")


def rename(source, offset):
    ids = []
    for m in _GEN_ID.finditer(source):
        if m.group(0) not in ids:
            ids.append(m.group(0))
    in_class = set()   # names starting with __ (not ending with __) would be mangled inside classes
    mapping = {}
    pool = RENAME_POOL[offset % len(RENAME_POOL):] + RENAME_POOL[:offset % len(RENAME_POOL)]
    pool = [p for p in pool if not (p.startswith("__") and not p.endswith("__"))]
    for i, name in enumerate(ids):
        if i < len(pool) and pool[i] not in source.split():
            mapping[name] = pool[i]
    if not mapping:
        return None, {}
    out = _GEN_ID.sub(lambda m: mapping.get(m.group(0), m.group(0)), source)
    return out, mapping


def _rename_shard(item):
    seed, n, switches = item
    part = new_part()
    counter = [0]

    def body(p):
        counter[0] += 1
        o = run_code(p.source, "exec")
        if not o["ok"]:
            part["discarded"]["original-raises"] += 1
            return None
        twin, mapping = rename(p.source, counter[0])
        if twin is None:
            return None
        try:
            compile(twin, "<twin>", "exec")
        except SyntaxError:
            part["discarded"]["renamed-twin-not-valid"] += 1
            return None
        o2 = run_code(twin, "exec")
        if not o2["ok"]:
            part["discarded"]["renamed-twin-raises:" + str(o2["err"])] += 1
            return None
        if o2["stdout"] != o["stdout"]:
            part["discarded"]["renaming-changed-the-original"] += 1
            return None
        part["evaluations"] += 1
        part["classes"]["renamed-program"] += 1
        part["nontrivial"].add(key_hash(twin))
        if len(part["samples"]) < 1:
            part["samples"].append({"renaming": mapping, "twin_head": twin[:300]})
        cfgs = [env.ALL_CFGS[counter[0] % 8], env.ALL_CFGS[(counter[0] + 3) % 8]]
        status, failures, _ = check_program(twin, cfgs, orig=o2)
        if status == "fail":
            cfg, diffs, text = failures[0]
            # is it the renaming? the un-renamed program must pass for this to be a capture
            s0, f0, _ = check_program(p.source, [cfg], orig=o)
            what = "renamed program differs" + ("" if s0 == "ok" else " (the un-renamed program fails too)")
            return {"payload": program_payload(twin, cfg), "diffs": diffs, "what": what}
        return None

    calls, v = hyp.search(prog.program_strategy(switches), body, seed, n, key=lambda p: p.source)
    if v:
        part["violations"].append(reduce_violation(v))
    return part


# ------------------------------------------------------------------ (4) coinciding identifiers

# programs in which two DIFFERENT entities (two functions, two classes, a function and its
# parameter, ...) may or may not carry the same identifier; each template is legal Python and
# well-defined whichever two names are plugged in. The user's choice to re-use a name must not
# make two temporaries collide (helper names derived from user names) or confuse two scopes.
COINCIDE = {
    "nested-functions-both-own-captured-variables":
        "def {A}(n0):\n    h0 = n0\n    def {B}(m0):\n        s0 = m0\n        def p0():\n            nonlocal h0, s0\n            h0 += 1\n            s0 += 10\n            return h0 + s0\n        return p0(), s0\n    return {B}(1), h0\nprint({A}(2))\n",
    "nested-functions-read-both":
        "def {A}(n0):\n    h0 = n0\n    def {B}(m0):\n        s0 = m0\n        def p0():\n            return h0 + s0\n        s0 += 1\n        return p0()\n    h0 += 1\n    return {B}(1)\nprint({A}(2))\n",
    "three-nested-functions":
        "def {A}():\n    a0 = 1\n    def {B}():\n        b0 = 2\n        def {A}():\n            nonlocal a0, b0\n            a0, b0 = a0 + 10, b0 + 20\n            return a0 + b0\n        return {A}() + b0\n    return {B}() + a0\nprint({A}())\n",
    "function-redefined":
        "def {A}():\n    c0 = 0\n    def i0():\n        nonlocal c0\n        c0 += 1\n        return c0\n    return i0() + i0()\nr0 = {A}()\ndef {B}():\n    d0 = 5\n    def i0():\n        nonlocal d0\n        d0 *= 2\n        return d0\n    return i0() + i0()\nprint(r0, {B}(), {A}())\n",
    "sibling-functions-with-loops":
        "def {A}(q0):\n    for e0 in q0:\n        if e0 > 1:\n            return e0\n    return -1\ndef {B}(q0):\n    t0 = 0\n    while q0:\n        t0 += q0.pop()\n        if t0 > 4:\n            break\n    else:\n        return 'all'\n    return t0\nprint({A}([1, 2, 3]), {B}([1, 2, 3]), {B}([1]))\n",
    "nested-function-loops-and-returns":
        "def {A}(q0):\n    def {B}(r0):\n        for e0 in r0:\n            if e0 == 2:\n                return 'in'\n        return 'none'\n    for e0 in q0:\n        if {B}([e0]) == 'in':\n            return ('out', e0)\n    return 'end'\nprint({A}([1, 2, 3]), {A}([5]))\n",
    "class-redefined-with-itself-as-base":
        "class {A}:\n    def run(self):\n        return 'base'\nclass {B}({A}):\n    g0 = 'hi '\n    def run(self):\n        return self.g0 + super().run()\n    def extra(self):\n        return [c0.__name__ for c0 in type(self).__mro__][:-1]\nprint({B}().run(), {B}().extra())\n",
    "alternative-class-definitions":
        "f0 = 1\nif f0:\n    class {A}:\n        v0 = 'first'\n        def m0(self):\n            return self.v0\nelse:\n    class {B}:\n        w0 = 'second'\n        def n0(self):\n            return self.w0\nclass {B}:\n    w0 = 'third'\n    def n0(self):\n        return self.w0 + '!'\nprint({B}().n0(), hasattr({A}, 'v0'))\n",
    "nested-classes":
        "class {A}:\n    x0 = 1\n    class {B}:\n        y0 = 2\n        def m0(self):\n            return self.y0\n    def m0(self):\n        return self.x0 + self.{B}().m0()\nprint({A}().m0(), {A}.{B}.y0)\n",
    "same-inner-class-in-two-classes":
        "class P0:\n    class {A}:\n        t0 = 'p'\n        def m0(self):\n            return self.t0 * 2\nclass Q0:\n    class {B}:\n        t0 = 'q'\n        u0 = 3\n        def m0(self):\n            return self.t0 * self.u0\nprint(P0.{A}().m0(), Q0.{B}().m0())\n",
    "inner-class-twice-in-one-class":
        "class P0:\n    class {A}:\n        t0 = 'p'\n    first0 = {A}\n    class {B}:\n        t0 = 'q'\n        u0 = 3\n        def m0(self):\n            return self.t0 * self.u0\nprint(P0.first0.t0, P0.{B}().m0())\n",
    "function-and-class":
        "def {A}(a0):\n    b0 = a0\n    def i0():\n        nonlocal b0\n        b0 += 1\n        return b0\n    return i0()\nr0 = {A}(1)\nclass {B}:\n    z0 = r0\n    def m0(self):\n        return self.z0 + 1\nprint(r0, {B}().m0())\n",
    "method-and-class":
        "class {A}:\n    def {B}(self):\n        return 'm'\n    z0 = 1\nprint({A}().{B}(), {A}.z0)\n",
    "function-and-its-parameter":
        "def {A}({B}, c0=2):\n    def i0():\n        nonlocal {B}\n        {B} += c0\n        return {B}\n    return i0()\nprint({A}(1))\n",
    "function-and-its-local":
        "def {A}():\n    {B} = 3\n    def i0():\n        return {B} + 1\n    return i0()\nprint({A}())\n",
    "class-and-its-attribute":
        "class {A}:\n    {B} = 4\n    z0 = {B} + 1\n    def m0(self):\n        return self.{B}\nprint({A}.z0, {A}().m0())\n",
    "two-decorated-classes":
        "def t0(l0):\n    def ap0(c0):\n        c0.tags = getattr(c0, 'tags', ()) + (l0,)\n        return c0\n    return ap0\ndef fr0(c0):\n    c0.frozen = True\n    return c0\n@t0('outer')\n@fr0\n@t0('inner')\nclass {A}:\n    x0 = 0\n@fr0\n@t0('only')\nclass {B}({A}):\n    pass\nprint({A}.tags, {B}.tags, {A}.frozen)\n",
    "two-decorated-functions":
        "def t0(l0):\n    def ap0(f0):\n        def w0(*a0):\n            return (l0, f0(*a0))\n        return w0\n    return ap0\n@t0('a')\n@t0('b')\n@t0('c')\ndef {A}(x0):\n    return x0\nr0 = {A}(1)\n@t0('d')\n@t0('e')\ndef {B}(x0):\n    return -x0\nprint(r0, {B}(2))\n",
    "import-alias-and-function":
        "import string as {A}\nd0 = {A}.digits[:3]\ndef {B}():\n    import os.path as {A}\n    return {A}.basename('a/b')\nprint(d0, {B}())\n",
    "loop-targets":
        "for {A} in [1, 2, 3]:\n    if {A} == 2:\n        break\nfor {B} in [7, 8]:\n    for {A} in [4, 5]:\n        if {A} == 5:\n            break\n    else:\n        {B} = -1\nprint({A}, {B})\n",
    "lambda-parameter-and-function":
        "def {A}(z0):\n    g0 = lambda {B}, y0=z0: {B} + y0\n    def i0():\n        nonlocal z0\n        z0 += 1\n    i0()\n    return g0(1), z0\nprint({A}(2))\n",
    "comprehension-target-and-function":
        "def {A}(z0):\n    def i0():\n        nonlocal z0\n        z0 += 1\n    i0()\n    return [{B} + z0 for {B} in range(2)]\nprint({A}(2))\n",
    "methods-with-super-in-two-classes":
        "class B0:\n    def {A}(self):\n        return 'b'\n    def {B}(self):\n        return 'B'\nclass K0(B0):\n    def {A}(self):\n        return 'k' + super().{A}()\n    def {B}(self):\n        return 'K' + super().{B}() + self.{A}()\nprint(K0().{A}(), K0().{B}())\n",
    "global-and-nested-local":
        "{A} = 10\ndef f0():\n    {B} = 20\n    def g0():\n        global {A}\n        {A} += 1\n        return {A}\n    return g0(), {B}\nprint(f0(), {A})\n",
}
COINCIDE_NAMES = [("na0", "nb0"), ("memo", "memo"), ("k", "k"), ("_", "_"), ("it", "it"), ("self", "self"),
                  ("itertools", "itertools"), ("v", "k"), ("importlib", "importlib"), ("lambda_", "lambda_"),
                  ("listcomp", "listcomp"), ("type", "type")]


def _coincide_shard(item):
    idx, nshards, switches = item
    part = new_part()
    cells = [(t, a, b) for t in sorted(COINCIDE) for (a, b) in COINCIDE_NAMES]
    for k in range(idx, len(cells), nshards):
        t, a, b = cells[k]
        if "user-binds-builtin-called-by-lowering" in switches and (a in BUILTINS_CALLED or b in BUILTINS_CALLED):
            part["exclusions"]["user-binds-builtin-called-by-lowering"] = part["exclusions"].get("user-binds-builtin-called-by-lowering", 0) + 1
            continue
        src = COINCIDE[t].replace("{A}", a).replace("{B}", b)
        try:
            compile(src, "<coincide>", "exec")
        except (SyntaxError, SystemError):
            part["discarded"]["coincidence-not-valid-python"] += 1
            continue
        o = run_code(src, "exec")
        if not o["ok"]:
            part["discarded"]["coincidence-original-raises:" + str(o["err"])] += 1
            continue
        part["evaluations"] += 1
        part["classes"]["coincide:" + ("same" if a == b else "different")] += 1
        if a == b:
            part["nontrivial"].add(key_hash("coincide", t, a))
        for cfg in (env.ALL_CFGS if a == b and a == "memo" else _cfgs(k)):
            with SuffixMonitor() as mon:
                try:
                    text = env.convert(src, cfg, 0)
                    err = None
                except BaseException as e:
                    text, err = "", "conversion raised %s: %s" % (type(e).__name__, str(e)[:160])
            diffs = [err] if err else mon.diffs(text) + binding_site_diffs(text)
            if not diffs:
                status, failures, _ = check_program(src, [cfg], orig=o)
                diffs = failures[0][1] if status == "fail" else []
            if diffs:
                part["violations"].append({"payload": program_payload(src, cfg), "diffs": diffs,
                                           "what": "two entities named %r and %r (%s, %s)" % (a, b, t, env.cfg_name(cfg))})
                break
    return part


def run(report):
    quick = report.tier == "quick"
    report.rule = RULE % (len(IDS), len(FEATS), len(COINCIDE), len(COINCIDE_NAMES))
    switches = sorted(open_switches('C09'))
    for s in switches:
        report.exclusions.setdefault(s, 0)
    ns = env.NPROC * 4
    items = [(_matrix_shard, (i, ns, switches)) for i in range(ns)]
    items += [(_rename_shard, (env.sub_seed(report.seed, "C09", i), 40 if quick else 800, switches)) for i in range(env.NPROC)]
    items += [(_coincide_shard, (i, 8, switches)) for i in range(8)]
    # host dimension: hosts before 3.12 recognise implicit scopes by NAME; every cell of the
    # scope-like identifiers and a stride of the others run under the other hosts
    from .. import hosts
    others = hosts.available_other_hosts()
    cases = []
    for k, (n, r, f) in enumerate([(n, r, f) for n in IDS for r in ROLES for f in FEATS]):
        if cell_excluded(n, r, f, switches):
            continue
        if n in ("listcomp", "genexpr", "setcomp", "dictcomp", "lambda_", "top") or k % (23 if quick else 5) == 0:
            src = cell_source(n, r, f)
            try:
                compile(src, "<cell>", "exec")
            except (SyntaxError, SystemError):
                continue
            cases.append((src, [env.ALL_CFGS[k % 8]]))
    for h in others:
        for j in range(2):
            items.append((hosts.host_shard, (h, cases[j::2], {}, "identifier captured")))
    report.extra["other_hosts"] = others
    report.extra["host_cells_per_host"] = len(cases)
    for part in env.pmap(_call, items):
        report.absorb(part)
    report.exhaustive = True
    report.extra["matrix_cells"] = len(IDS) * len(ROLES) * len(FEATS)
    report.notes.append("exhaustive:true refers to the identifier x role x feature matrix; renamed programs are sampled")
    report.assumptions += ["identifiers starting with __ol_ are reserved and outside the property",
                           "a renamed twin whose ORIGINAL behaves differently from the un-renamed original is discarded"]


def _call(item):
    f, arg = item
    return f(arg)


def replay(payload):
    return replay_program(payload)
