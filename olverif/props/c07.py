"""C07 - each source subexpression is evaluated once, in Python's order.

Domain   G-PROBE statement templates in which every subexpression is a logging probe P(i, v)
         and every container/object logs its item/attribute accesses; each template in module,
         function and class placement; Hypothesis-drawn target-pattern trees with probes at
         every leaf.
Oracle   equality of the ordered probe/access log, of stdout and of the final state.
"""
from hypothesis import strategies as st

from .. import env, hyp
from ..kit import run_code
from ..oracle import check_program, program_payload, replay_program, reduce_violation
from ..runner import new_part, key_hash, open_switches

RULE = ("a fixed catalogue of statement templates (assignment to name/attribute/subscript/slice "
        "with every subset of bounds, nested and starred patterns, chained targets, augmented "
        "assignment for all 13 operators on the four target kinds, def with decorators and "
        "positional/keyword-only defaults, class with bases/keywords/metaclass/decorators, "
        "if/elif/while/for headers incl. probe-bearing for targets, return, calls mixing positional, "
        "starred, keyword and double-starred arguments, comparison chains, boolean short-circuits, "
        "conditional expressions, walrus, comprehensions, f-strings, lambdas with defaults, imports) "
        "x {module, function, class} placement x 8 configurations, swept completely, and every template "
        "once more inside each of 16 further containers (closure, nested and decorated function, method, "
        "class in function, function in a loop, taken if/else/elif branch, for/while bodies, loop else); plus "
        "Hypothesis-drawn target patterns (depth <= 3, arity <= 4) with a probe at every leaf. "
        "Non-trivial: the statement has >= 2 probes whose relative order is observable; distinct "
        "by (template, placement).")

PRE = "o = OBJ('o')\no2 = OBJ('o2')\no.a = 1\no.c = 2\no.sub = OBJ('sub')\no.sub.c = 1\no.sub.d = BOX('subd', {'k': 1})\nb = BOX('b', {'k': 1, 'j': 2})\nl = BOX('l', [0, 1, 2, 3, 4, 5])\n"

AUG_OPS = ["+=", "-=", "*=", "/=", "//=", "%=", "**=", "<<=", ">>=", "&=", "|=", "^=", "@="]

TEMPLATES = [
    "x = P(1, 5)",
    "P(1, o).a = P(2, 5)",
    "P(1, b)[P(2, 'k')] = P(3, 5)",
    "x = y = z = P(1, [])\nL('same', x is y, y is z)",
    "x = P(1, o).a = P(2, 5)",
    "P(1, o).a = P(2, b)[P(3, 'k')] = P(4, 5)",
    "P(1, o).a = x = P(2, o2).c = P(3, [1])",
    "x, P(1, o).a = P(2, (1, 2))",
    "P(1, o).a, P(2, b)[P(3, 'k')] = P(4, (1, 2))",
    "[P(1, o).a, *P(2, o2).c] = P(3, (1, 2, 3))",
    "(x, (P(1, o).a, y)) = P(2, (1, (2, 3)))",
    "*P(1, o).a, P(2, b)[P(3, 'j')] = P(4, [1, 2, 3])",
    "x, (y, *P(1, o).a), z = P(2, 1), (P(3, 2), P(4, 3), P(5, 4)), P(6, 5)",
    "a, b2 = b2, a = P(1, (1, 2))",
    "x = 1\nx += P(1, 2)",
    "x = [1]\nx += P(1, [2])",
    "@P(1, DECO('a'))\n@P(2, DECO('b'))\ndef f(a=P(3), c=P(4), *, d=P(5), e=P(6)):\n    pass",
    "def f(a=P(1, [])):\n    a.append(1)\n    return a\nL('calls', f(), f(), f(P(2, [9])))",
    "@DECO(P(1, 'x'))\ndef f():\n    return P(2, 1)\nf()\nf()",
    "def f(a, /, c=P(1, 2), *r, k=P(2, 3), **kw):\n    return P(3, a)\nf(P(4, 1), P(5, 2), P(6, 3), z=P(7, 4))",
    "class A(P(1, Bs)):\n    pass",
    "class A(P(1, Bs), P(2, Bs2)):\n    P(3)",
    "class A(metaclass=P(1, Mt)):\n    pass",
    "class A(P(1, Bs), metaclass=P(2, Mt)):\n    pass",
    "class A(P(1, Q), a=P(2, 1), metaclass=P(3, Mt), c=P(4, 2)):\n    pass",
    "@P(1, DECO('a'))\nclass A(P(2, Bs), P(3, Bs2), metaclass=P(4, Mt)):\n    x = P(5)",
    "@P(1, DECO('a'))\n@P(2, DECO('b'))\nclass A(P(3, Bs)):\n    P(4)",
    "class A(P(1, Q), a=P(2, 1), c=P(3, 2)):\n    pass",
    # annotated assignments to attribute / subscript targets: the value first, like the plain form
    "P(1, o).a: int = P(2, 5)",
    "P(1, b)[P(2, 'k')]: int = P(3, 5)",
    "P(1, o).sub.c: 'str' = P(2, 5)\nx: int = P(3, 1)\ny: int",
    # a decorated class WITHOUT bases or keywords: decorators first, then the body, then the application
    "@P(1, DECO('a'))\nclass A:\n    x = P(2, 1)\n    def m(self, d=P(3, 2)):\n        return d",
    "@P(1, DECO('a'))\n@P(2, DECO('b'))\nclass A():\n    P(3)\n    class In:\n        P(4)",
    "@P(1, DECO('a'))\nclass A(P(2, Bs)):\n    @P(3, DECO('m'))\n    def m(self):\n        pass\n    P(4)",
    # a store of a FALSY value as the only statement of a taken branch: the later conditions stay unevaluated
    "if P(1, 1):\n    x = P(2, 0)\nelif P(3, 1):\n    P(4)\nelse:\n    P(5)",
    "if P(1, 0):\n    P(2)\nelif P(3, 1):\n    o.a = P(4, None)\nelif P(5, 1):\n    P(6)\nelse:\n    P(7)",
    "if P(1, 1):\n    b['k'] = P(2, '')\nelse:\n    P(3)\nif P(4, 1):\n    P(5, [])\nelse:\n    P(6)",
    "class A(P(1, Bs)):\n    x = P(2, 1)\n    def m(self, d=P(3, x)):\n        return d\n    y = P(4, m)\nL('m', A().m())",
    "if P(1, 0):\n    P(2)\nelif P(3, 1):\n    P(4)\nelse:\n    P(5)",
    "if P(1, 0):\n    P(2)\nelif P(3, 0):\n    P(4)\nelif P(5, 0):\n    P(6)\nelse:\n    P(7)",
    "n = [0]\nwhile P(1, n[0] < 2):\n    n[0] += 1\n    P(2)\nelse:\n    P(3)",
    # conditions of loops that are left early: evaluated as often as Python does, not once more
    "n = [0]\nwhile P(1, n[0] < 5):\n    n[0] += 1\n    if P(2, n[0] == 2):\n        break\n    P(3)\nelse:\n    P(4)",
    "n = [0]\nwhile P(1, n[0] < 3):\n    n[0] += 1\n    if P(2, n[0] == 2):\n        continue\n    P(3)\nelse:\n    P(4)",
    "n = [0]\nwhile P(1, 1):\n    n[0] += 1\n    if P(2, n[0] >= 2):\n        break",
    "n = [0]\nwhile P(1, n[0] < 5) and P(2, 1):\n    n[0] += 1\n    if P(3, n[0] == 1):\n        continue\n    elif P(4, n[0] == 3):\n        break\n    P(5)",
    "for z in P(1, [1, 2]):\n    n = [0]\n    while P(2, n[0] < 3):\n        n[0] += 1\n        if P(3, n[0] == 2):\n            break\n    if P(4, z == 1):\n        continue\n    P(5)",
    "n = [0]\nwhile P(1, n[0] < 2):\n    n[0] += 1\n    for z in P(2, [1, 2]):\n        if P(3, z == n[0]):\n            break\n    else:\n        P(4)\n        break\n    P(5)",
    "for z in P(1, [1, 2, 3]):\n    if P(2, z == 2):\n        continue\n    P(3, z)\nelse:\n    P(4)",
    "for z in P(1, [1, 2, 3]):\n    if P(2, z == 2):\n        break\n    P(3, z)\nelse:\n    P(4)",
    "for z in P(1, [1, 2]):\n    P(2, z)",
    "for P(1, o).a in P(2, [1, 2]):\n    P(3)",
    "for P(1, b)[P(2, 'k')] in P(3, [1, 2]):\n    P(4)",
    "for x, P(1, o).a in P(2, [(1, 2), (3, 4)]):\n    P(3)",
    "for x, *P(1, o).a in P(2, [(1, 2, 3)]):\n    if P(3, 1):\n        break\nelse:\n    P(4)",
    "for z in P(1, SEQ('s', [1, 2, 3])):\n    if P(2, z == 2):\n        break",
    "P(1, max)(P(2, 1), *P(3, [2]), key=P(4, None))",
    "P(1, dict)(*P(2, []), a=P(3, 1), **P(4, {'q': 2}), c=P(5, 3))",
    "P(1, 1) < P(2, 2) < P(3, 3)",
    "P(1, 3) < P(2, 2) < P(3, 3)",
    "P(1, 0) and P(2, 1) or P(3, 2)",
    "P(1, 1) if P(2, 0) else P(3, 3)",
    "(w := P(1, 1)) + P(2, w)",
    "[P(1, i) for i in P(2, [1, 2]) if P(3, i)]",
    "{P(1, i): P(2, j) for i in P(3, [1]) for j in P(4, [2, 3])}",
    "{P(1, 'a'): P(2, 1), **P(3, {}), P(4, 'c'): P(5, 2)}",
    "[P(1), *P(2, [1]), P(3)]",
    "f'{P(1, 1)}{P(2, 2)!r:{P(3, 3)}}'",
    "g = lambda a=P(1): a",
    "(lambda a=P(1), *, c=P(2): P(3))()",
    "import math as m\nP(1, m)",
    "x = P(1, b)[P(2, 'k')]",
    "x = P(1, l)[P(2, 1):P(3, 4):P(4, 2)]",
    "x = P(1, o).a",
    "print(P(1, 1), P(2, 2), sep=P(3, ''))",
    # the object of an augmented / plain store is itself an attribute chain whose reads are logged
    "o.sub.c += P(1, 5)",
    "o.sub.d['k'] -= P(1, 2)",
    "o.sub.c = P(1, 7)\no.sub.d[P(2, 'j')] = o.sub.c",
    "o.sub.c, o.sub.d['k'] = P(1, (1, 2))",
    # expression statements without a call: attribute and item reads still happen (properties, __getattr__, defaultdict)
    "o.a",
    "b['k']",
    "o.sub.c\nl[0]\no.sub.d['k']",
    "o\n5\n'just a string'\nl[1:3]\n-o.a\n(o.a, b['k'])",
    "x: int = P(1, 1)",
    "P(1, o).a: int = P(2, 5)",
    "P(1, b)[P(2, 'k')]: int = P(3, 5)",
    "P(1, l)[P(2, 0):P(3, 1)]: list = P(4, [7])",
    "P(1, b)['k'] += P(2, 5)",
    "P(1, l)[0] -= P(2, 1)",
    "P(1, l)[1:2] += P(2, [7])",
    "P(1, l)[-1] *= P(2, 3)\nP(3, b)['j'] //= P(4, 2)",
    "P(1, o).a = P(2, b)['k'] = P(3, l)[0] = P(4, 9)",
    "P(1, b)['k'] = P(2, l)[0]",
    "P(1, l)[len(P(2, l)) - 2] = P(3, l)[P(4, 0)]",
    "x = [P(1), P(2)][P(3, 0)]",
    "x = P(1, o).a.real + P(2, b)[P(3, 'k')] * P(4, 2)",
    "P(1, o).a, x = x, P(2, o).c = P(3, (1, 2))",
]
# slices with every subset of bounds (store, augmented store)
for _lo in ("P(2, 1)", ""):
    for _up in ("P(3, 3)", ""):
        for _st in (":P(4, 1)", ":", ""):
            TEMPLATES.append("P(1, l)[%s:%s%s] = P(5, [7])" % (_lo, _up, _st))
            TEMPLATES.append("P(1, l)[%s:%s%s] += P(5, [7])" % (_lo, _up, _st))
for _op in AUG_OPS:
    TEMPLATES.append("P(1, o).a %s P(2, MK('binary_only', 3))" % _op)
    TEMPLATES.append("P(1, b)[P(2, 'k')] %s P(3, MK('inplace_self', 3))" % _op)
    TEMPLATES.append("v = MK('inplace_new', 2)\nv %s P(1, 5)" % _op)
# the value is a bare name that the target's own subexpressions rebind: Python reads the value first
TEMPLATES_MODULE_ONLY = [
    "cur = 1\ndef nxt():\n    global cur\n    cur = 2\n    return 'k'\nb[nxt()] = cur\nL('v', b['k'], cur)",
    "cur = 1\ndef obj():\n    global cur\n    cur += 10\n    return o\nobj().a = cur\nobj().c = 5\nL('v', o.a, o.c, cur)",
    "cur = [0]\ndef nxt():\n    global cur\n    cur = [9]\n    return 0\nl[nxt()] = cur\nL('v', l[0], cur)",
    "cur = 1\ndef nxt():\n    global cur\n    cur = 2\n    return 'k'\nb[nxt()] += cur\nL('v', b['k'], cur)",
]
TEMPLATES_MODULE_ONLY += [
    # the value expression REBINDS the target name: Python reads the old value of the name first
    "cur = 1\ndef nxt():\n    global cur\n    cur += 1000\n    return 5\ncur += nxt()\nL('v', cur)",
    "cur = [1]\ndef nxt():\n    global cur\n    cur = [9]\n    return [5]\ncur += nxt()\nL('v', cur)",
    "cur = 2\ndef nxt():\n    global cur\n    cur = 100\n    return 3\ncur *= nxt()\ncur -= nxt()\ncur **= P(1, 2)\nL('v', cur)",
    "def FF2():\n    cur = 1\n    def nxt():\n        nonlocal cur\n        cur += 1000\n        return 5\n    cur += nxt()\n    cur -= (cur := 7)\n    return cur\nL('v', FF2())",
    "class KK2:\n    cur = 1\n    def nxt(d=[]):\n        d.append(1)\n        return len(d)\n    cur += nxt()\n    cur += (cur := 50)\nL('v', KK2.cur)",
]
TEMPLATES_IN_FUNC_ONLY = [
    "return P(1, 1)",
    "if P(1, 1):\n    return P(2, 2)\nP(3)",
    "for z in P(1, [1, 2]):\n    return P(2, z)",
    "n = [0]\nwhile P(1, n[0] < 5):\n    n[0] += 1\n    if P(2, n[0] == 2):\n        return P(3, n[0])\n    P(4)\nP(5)",
    "n = [0]\nwhile P(1, n[0] < 2):\n    n[0] += 1\n    for z in P(2, [1, 2]):\n        while P(3, 1):\n            if P(4, z == 2):\n                return P(5, z)\n            break\nP(6)",
]
SETUP = {
    "P(1, o).a %s": "o.a = MK('binary_only', 1)\n",
}


def place(body, where):
    if where.startswith("nest:"):
        # one of the G-NEST containers (closure, method, class in function, loop bodies, branches, ...)
        from ..gen import nest
        return PRE + "\n".join(nest._nest(where[5:], 7, body.split("\n"))) + "\n"
    if where == "module":
        return PRE + body + "\n"
    ind = "\n".join("    " + l for l in body.split("\n"))
    if where == "function":
        return PRE + "def FF():\n" + ind + "\nL('ret', FF())\n"
    if where == "class":
        return PRE + "class KK:\n" + ind + "\n"
    raise ValueError(where)


def setup_for(t):
    pre = ""
    if ".a " in t and any(t.startswith("P(1, o).a %s" % op) for op in AUG_OPS):
        pre = "o.a = MK('binary_only', 1)\n"
    if "'k')] " in t and any(("'k')] %s" % op) in t for op in AUG_OPS):
        pre = "b['k'] = MK('inplace_self', 1)\n"
    return pre


def excluded(t, switches):
    if "metaclass-after-other-header-probes" in switches and "metaclass=P(" in t and t.count("P(") > 1 \
            and "class" in t.split("metaclass")[0].split("\n")[-1] and "(P(" in t.split("metaclass")[0].split("\n")[-1]:
        return "metaclass-after-other-header-probes"
    return None


def check_template(part, t, where, switches):
    sw = excluded(t, switches)
    if sw:
        part["exclusions"][sw] = part["exclusions"].get(sw, 0) + 1
        return
    src = place(setup_for(t) + t, where)
    try:
        compile(src, "<t>", "exec")
    except SyntaxError:
        part["discarded"]["template-not-valid-in-placement"] += 1
        return
    o = run_code(src, "exec")
    if not o["ok"]:
        part["discarded"]["original-raises:%s" % o["err"]] += 1
        return
    part["evaluations"] += 1
    part["classes"]["placement:" + where] += 1
    nprobes = sum(1 for e in o["log"] if e[0] in ("P", "getattr", "setattr", "getitem", "setitem", "mkdeco", "apply"))
    if nprobes >= 2:
        part["nontrivial"].add(key_hash(t, where))
    status, failures, _ = check_program(src, env.ALL_CFGS, orig=o)
    if status == "fail":
        cfg, diffs, text = failures[0]
        part["violations"].append({"payload": program_payload(src, cfg), "diffs": diffs,
                                   "what": "evaluation order/count differs for template %r in %s placement" % (t[:60], where)})
        return
    # the same statement computing FALSY / negative / empty values (gen/perturb.py): a variant is a
    # program of its own; one whose original raises is outside the domain
    from ..gen import perturb
    if where in ("module", "function", "class"):
        for mode in ("falsy", "negative", "empty"):
            v = perturb.perturb(src, mode)
            if v is None:
                continue
            ov = run_code(v, "exec", wall=3)
            if not ov["ok"]:
                part["discarded"]["value-variant-original-raises"] += 1
                continue
            part["evaluations"] += 1
            part["classes"]["value-variant:" + mode] += 1
            status, failures, _ = check_program(v, env.ALL_CFGS[::3] + env.ALL_CFGS[1::3][:1], orig=ov)
            if status == "fail":
                cfg, diffs, text = failures[0]
                part["violations"].append({"payload": program_payload(v, cfg), "diffs": diffs,
                                           "what": "evaluation order/count differs for the %s-valued variant of template %r in %s placement" % (mode, t[:60], where)})
                return


def nested_cases():
    """every template in every G-NEST container (beyond module / function / class)"""
    from ..gen import nest
    out = []
    for c in sorted(nest.CONTAINERS):
        if c in ("module", "func", "class"):
            continue
        in_func = nest.CONTAINERS[c][1].get("func", False)
        out += [(t, "nest:" + c) for t in TEMPLATES]
        if in_func:
            out += [(t, "nest:" + c) for t in TEMPLATES_IN_FUNC_ONLY]
    return out


def _template_shard(item):
    idx, nshards, switches = item
    part = new_part()
    cases = [(t, w) for t in TEMPLATES for w in ("module", "function", "class")]
    cases += [(t, "function") for t in TEMPLATES_IN_FUNC_ONLY]
    cases += [(t, "module") for t in TEMPLATES_MODULE_ONLY]
    cases += nested_cases()
    for k in range(idx, len(cases), nshards):
        check_template(part, cases[k][0], cases[k][1], switches)
    if idx == 0:
        part["samples"].append(place(TEMPLATES[8], "function"))
    return part


# ------------------------------------------------------------------ drawn target patterns

@st.composite
def pattern_case(draw):
    """(target source, value source) with a probe at every leaf"""
    counter = [0]

    def nid():
        counter[0] += 1
        return counter[0]

    def leaf():
        k = draw(st.sampled_from(["name", "attr", "sub", "slice", "name"]))
        if k == "name":
            return "x%d" % nid(), "scalar"
        if k == "attr":
            return "P(%d, %s).a%d" % (nid(), draw(st.sampled_from(["o", "o2"])), nid()), "scalar"
        if k == "sub":
            return "P(%d, b)[P(%d, 'k%d')]" % (nid(), nid(), draw(st.integers(0, 2))), "scalar"
        lo = draw(st.sampled_from(["P(%d, 1)" % nid(), ""]))
        up = draw(st.sampled_from(["P(%d, 2)" % nid(), ""]))
        return "P(%d, l)[%s:%s]" % (nid(), lo, up), "list"

    def value(kind):
        if kind == "list":
            return "P(%d, [%d])" % (nid(), draw(st.integers(0, 9)))
        return "P(%d, %d)" % (nid(), draw(st.integers(0, 9)))

    def tree(depth):
        n = draw(st.integers(1, 4))
        star = draw(st.integers(-1, n - 1)) if draw(st.booleans()) else -1
        tg, vals = [], []
        for i in range(n):
            if i == star:
                t, _ = leaf()
                if "[" in t and ":" in t.split("[")[-1]:
                    t = "x%d" % nid()
                tg.append("*" + t)
                for _ in range(draw(st.integers(0, 2))):
                    vals.append(value("scalar"))
            elif depth < 3 and draw(st.integers(0, 3)) == 0:
                t, v = tree(depth + 1)
                tg.append(t)
                vals.append(v)
            else:
                t, kind = leaf()
                tg.append(t)
                vals.append(value(kind))
        br = draw(st.sampled_from(["()", "[]"]))
        tsrc = br[0] + ", ".join(tg) + ("," if n == 1 and br == "()" else "") + br[1]
        vbr = draw(st.sampled_from(["()", "[]"]))
        vsrc = vbr[0] + ", ".join(vals) + ("," if len(vals) == 1 and vbr == "()" else "") + vbr[1]
        return tsrc, vsrc

    t, v = tree(1)
    chained = draw(st.booleans())
    where = draw(st.sampled_from(["module", "function", "class"]))
    stmt = "%s = %s" % (t, v)
    if chained:
        stmt = "q = %s = %s" % (t, v)
    return stmt, where


def _pattern_shard(item):
    seed, n, switches = item
    part = new_part()

    def body(case):
        stmt, where = case
        sub = new_part()
        check_template(sub, stmt, where, switches)
        part["evaluations"] += sub["evaluations"]
        part["nontrivial"] |= sub["nontrivial"]
        part["discarded"].update(sub["discarded"])
        part["classes"]["drawn-pattern"] += sub["evaluations"]
        if len(part["samples"]) < 1 and sub["evaluations"] and len(stmt) > 60:
            part["samples"].append(stmt)
        return sub["violations"][0] if sub["violations"] else None

    calls, v = hyp.search(pattern_case(), body, seed, n, key=lambda c: c[0] + c[1])
    if v:
        part["violations"].append(reduce_violation(v))
    return part


def run(report):
    quick = report.tier == "quick"
    report.rule = RULE
    switches = sorted(open_switches('C07'))
    ns = env.NPROC * 2
    items = [(_template_shard, (i, ns, switches)) for i in range(ns)]
    per = 60 if quick else 2000
    items += [(_pattern_shard, (env.sub_seed(report.seed, "C07", i), per, switches)) for i in range(env.NPROC)]
    from .. import hosts
    others = hosts.available_other_hosts()
    cases = []
    for i, (t, w) in enumerate([(t, w) for t in TEMPLATES for w in ("module", "function", "class")]
                               + [(t, "function") for t in TEMPLATES_IN_FUNC_ONLY]
                               + [(t, "module") for t in TEMPLATES_MODULE_ONLY]):
        if excluded(t, switches):
            continue
        src = place(setup_for(t) + t, w)
        try:
            compile(src, "<t>", "exec")
        except SyntaxError:
            continue
        cases.append((src, [env.ALL_CFGS[i % 8], env.ALL_CFGS[(i + 3) % 8]]))
    for h in others:
        items.append((hosts.host_shard, (h, cases, {}, "evaluation order/count differs")))
    report.extra["other_hosts"] = others
    for part in env.pmap(_call, items):
        report.absorb(part)
    report.extra["templates"] = len(TEMPLATES) + len(TEMPLATES_IN_FUNC_ONLY) + len(TEMPLATES_MODULE_ONLY)
    report.exhaustive = True
    report.notes.append("exhaustive:true refers to the fixed template catalogue x placements x 8 configurations; drawn patterns are sampled")
    for s in switches:
        report.exclusions.setdefault(s, 0)
    report.assumptions += ["probes log ints/strs only; logging objects compare by canonical state"]


def _call(item):
    f, arg = item
    return f(arg)


def replay(payload):
    return replay_program(payload)
