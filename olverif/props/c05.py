"""C05 - break/continue/return/else are lowered with exact statement-level control flow.

Domain   G-CF skeletons: exhaustive up to a size bound in six placements, Hypothesis-drawn
         larger ones; each under several branch-outcome schedules and all semantic configs.
Oracle   equality of the complete event trace (markers, condition outcomes, IT creation,
         iter(), every next(), return-value probes, function results) with CPython's.
"""
from hypothesis import strategies as st

from .. import env, hyp
from ..gen import cf
from ..kit import Kit, run_code, compare_obs
from ..oracle import replay_program, program_payload
from ..runner import new_part, key_hash

SCHEDS = (0, 1, 2, 3, 4, 5)
ORIG_FUEL = 4000

RULE = ("skeletons = all statement trees over {marker, break, continue, return, return R(), "
        "if[/else], while[/else], for[/else]} (dead code after an interrupt kept) of size n, "
        "enumerated completely per placement up to the tier's bound and drawn by Hypothesis "
        "above it; each converted under the 4 semantic configurations (unparser alternating "
        "by parity in the sweep, all 8 configurations in the sampled part) and run under "
        "branch-outcome schedules. A case (skeleton x placement) is non-trivial when it has "
        "an interrupt inside a loop or a conditional return AND at least one schedule "
        "actually reaches an interrupt (measured on a marker-instrumented run of the "
        "original); distinct by (placement, skeleton).")


# iterable form of the for loops of a skeleton, cycled independently of the unparser (idx % 2)
ITER_FORMS = (False, True, "target", "nested", False, "iterator", "getitem", "target")


def _cfgs_for(idx):
    u = env.UNPARSERS[idx % 2]
    return [(u, w, s) for (w, s) in env.SEMANTIC_CFGS]


def _has_for(sk):
    return any(s[0] == "for" or (len(s) == 3 and (_has_for(s[1]) or _has_for(s[2]))) for s in sk)


def check_skeleton(part, sk, placement, cfgs, scheds, seed=0, walrus_iter=False):
    walrus_iter = walrus_iter if _has_for(sk) else False
    src = cf.program(sk, placement, walrus_iter=walrus_iter)
    if walrus_iter == "iterator":
        part["classes"]["for-over-iterator-object"] += 1
    elif walrus_iter == "nested":
        part["classes"]["walrus-nested-in-for-iterable"] += 1
    elif walrus_iter == "getitem":
        part["classes"]["for-over-getitem-only-sequence"] += 1
    elif walrus_iter == "target":
        part["classes"]["loop-target-read-in-else-and-after"] += 1
    elif walrus_iter:
        part["classes"]["walrus-in-for-iterable"] += 1
    feats = cf.features(sk)
    part["evaluations"] += 1
    part["classes"]["placement:" + placement] += 1
    part["classes"]["size:%d" % cf.size(sk)] += 1
    for f in feats:
        part["classes"]["feat:" + f] += 1
    try:
        code = compile(src, "<skeleton>", "exec")
    except SyntaxError as e:
        raise env.HarnessError("generated skeleton does not compile: %s\n%s" % (e, src))
    origs = []
    for s in scheds:
        o = run_code(code, "exec", Kit(s, ORIG_FUEL), want_globals=False)
        if o["err"] == "FuelExhausted":
            part["discarded"]["schedule-too-long"] += 1
            continue
        if not o["ok"]:
            raise env.HarnessError("skeleton original raised %s %s\n%s" % (o["err"], o["errmsg"], src))
        origs.append((s, o))
    if not origs:
        return
    candidate = ("interrupt-in-loop" in feats) or ("conditional-return" in feats)
    if candidate:
        tsrc = cf.program(sk, placement, trace_interrupts=True, walrus_iter=walrus_iter)
        taken = False
        for s, _ in origs:
            o = run_code(tsrc, "exec", Kit(s, 2 * ORIG_FUEL), want_globals=False)
            if any(ev[0] == "M" and ev[1] >= 10000 and ev[1] < 19000 for ev in o["log"]):
                taken = True
                break
        if taken:
            part["nontrivial"].add(key_hash(placement, sk))
            part["classes"]["nontrivial"] += 1
    if len(part["samples"]) < 3 and candidate:
        part["samples"].append({"placement": placement, "source": src,
                                "trace_len_sched0": len(origs[0][1]["log"])})
    for cfg in cfgs:
        try:
            text = env.convert(src, cfg, seed)
        except BaseException as e:
            part["violations"].append({
                "payload": program_payload(src, cfg, 0, seed, check_globals=False, check_stdout=False),
                "diffs": ["conversion raised %s: %s" % (type(e).__name__, str(e)[:200])],
                "what": "control-flow skeleton (%s) rejected by the converter" % placement})
            return
        try:
            ccode = compile(text, "<converted>", "eval")
        except BaseException as e:
            part["violations"].append({
                "payload": program_payload(src, cfg, 0, seed, check_globals=False, check_stdout=False),
                "diffs": ["converted text does not compile: %s" % e],
                "what": "control-flow skeleton (%s)" % placement})
            return
        for s, o in origs:
            c = run_code(ccode, "eval", Kit(s, 10 * o["used"] + 200), want_globals=False)
            part["extra"]["config_runs"] = part["extra"].get("config_runs", 0) + 1
            diffs = compare_obs(o, c, check_globals=False, check_stdout=False)
            if diffs:
                part["violations"].append({
                    "payload": program_payload(src, cfg, s, seed, check_globals=False, check_stdout=False),
                    "diffs": diffs,
                    "what": "control-flow trace differs (%s, schedule %d, %s)" % (placement, s, env.cfg_name(cfg))})
                return


def _sweep_shard(item):
    placement, n, shard, nshards = item
    part = new_part()
    sks = cf.enumerate_skeletons(n, cf.placement_in_func(placement))
    for idx in range(shard, len(sks), nshards):
        if len(part["violations"]) >= 3:
            break
        check_skeleton(part, sks[idx], placement, _cfgs_for(idx), SCHEDS, walrus_iter=ITER_FORMS[(idx // 2) % 8])
    return part


def _sample_shard(item):
    seed, n_examples, max_size = item
    part = new_part()
    strat = st.sampled_from(cf.PLACEMENTS).flatmap(
        lambda p: st.tuples(st.just(p), cf.skeleton_strategy(cf.placement_in_func(p), max_size),
                            st.integers(6, 1 << 16)))

    def body(case):
        placement, sk, rs = case
        sub = new_part()
        check_skeleton(sub, sk, placement, env.ALL_CFGS, (0, 2, rs), seed=seed & 0xffff, walrus_iter=(True, "iterator", False, "nested", "getitem", "target")[rs % 6])
        for k in ("evaluations",):
            part[k] += sub[k]
        part["nontrivial"] |= sub["nontrivial"]
        part["classes"].update(sub["classes"])
        part["discarded"].update(sub["discarded"])
        part["extra"]["config_runs"] = part["extra"].get("config_runs", 0) + sub["extra"].get("config_runs", 0)
        if len(part["samples"]) < 2:
            part["samples"] += sub["samples"][:1]
        return sub["violations"][0] if sub["violations"] else None

    calls, v = hyp.search(strat, body, seed, n_examples)
    if v is not None:
        part["violations"].append(v)
    return part


# the if lowering must not let a FALSY value of the taken branch fall through into the else branch
FALSY = ["0", "0.0", "''", "b''", "()", "[]", "{}", "None", "False", "set()", "0j", "range(0)", "frozenset()",
         "bytearray()", "-0.0", "0 * 5", "'' * 3", "not 1"]
TRUTHY = ["1", "'a'", "b'0'", "(0,)", "[0]", "-1", "0.1", "True", "...", "{0: 0}"]
BODY_FORMS = [
    "x = %s", "%s", "x = y = %s", "o.a = %s", "d['k'] = %s", "(z := %s)", "x: object = %s", "x = 1\n    x *= %s",
    "lst = [1]\n    lst[0:1] = [%s]", "x, y = %s, %s", "M(7) if %s else M(8)", "f = lambda: %s", "def g():\n        return %s",
    "pass\n    x = %s", "x = (%s, )[0]",
    # a declaration in front of the one binding statement; a lone import; two stores
    "global gq\n    gq = %s", "w: int\n    w = %s", "import math", "from math import pi as pp", "import math\n    x = %s",
    "x = %s\n    y = %s",
]


def falsy_cases():
    for vi, v in enumerate(FALSY + TRUTHY):
        for fi, form in enumerate(BODY_FORMS):
            body = form.replace("%s", v)
            for shape in ("ifelse", "ifelifelse", "nested", "classbody", "funcglobal", "nonlocal"):
                pre = "o = OBJ('o')\nd = BOX('d', {})\n"
                if shape == "classbody":
                    if "global " in body:
                        continue
                    b2 = body.replace("\n    ", "\n        ")
                    src = pre + "class KK:\n    if C(1):\n        %s\n    else:\n        M(2)\n    M(3)\n" % b2
                elif shape == "funcglobal":
                    b2 = body.replace("\n    ", "\n        ")
                    src = pre + ("def FF():\n    global x, y, z, lst, f, g, w, math, pp\n    if C(1):\n        %s\n    else:\n        M(2)\n    M(3)\nFF()\nFF()\n"
                                 % b2.replace("global gq", "pass").replace("gq", "x"))
                    if "def g" in body or ": object" in body or "w: int" in body:
                        continue        # def of a declared-global name: scope trees; annotated globals are illegal
                elif shape == "nonlocal":
                    if fi != 0:
                        continue
                    src = pre + ("def FF():\n    nv = 1\n    def GG():\n        if C(1):\n            nonlocal nv\n            nv = %s\n        else:\n            M(2)\n"
                                 "        M(3)\n        return nv\n    return GG(), GG(), nv\nL('r', FF())\n" % v)
                elif shape == "ifelse":
                    src = pre + "if C(1):\n    %s\nelse:\n    M(2)\nM(3)\n" % body
                elif shape == "ifelifelse":
                    src = pre + "if C(1):\n    %s\nelif C(4):\n    %s\nelse:\n    M(2)\nM(3)\n" % (
                        body, body.replace("global gq", "pass"))
                else:
                    b2 = body.replace("\n    ", "\n        ")
                    src = pre + "for v in IT(5):\n    if C(1):\n        %s\n    else:\n        M(2)\n        continue\n    M(6)\nM(3)\n" % b2
                yield (vi, fi, shape, src)


def _falsy_shard(item):
    idx, nshards = item
    part = new_part()
    for k, (vi, fi, shape, src) in enumerate(falsy_cases()):
        if k % nshards != idx:
            continue
        try:
            code = compile(src, "<falsy>", "exec")
        except SyntaxError as e:
            raise env.HarnessError("falsy-body case does not compile: %s\n%s" % (e, src))
        part["evaluations"] += 1
        part["classes"]["falsy-body-family"] += 1
        part["nontrivial"].add(key_hash("falsy", vi, fi, shape))
        for sched in (0, 1, 2):
            o = run_code(code, "exec", Kit(sched, ORIG_FUEL), want_globals=False)
            if not o["ok"]:
                # a value that the body form cannot take (x *= {}): outside the family
                part["discarded"]["falsy-family-original-raises"] += 1
                break
            for cfg in env.ALL_CFGS:
                try:
                    text = env.convert(src, cfg, 0)
                    c = run_code(text, "eval", Kit(sched, 10 * o["used"] + 200), want_globals=False)
                    diffs = compare_obs(o, c, check_globals=False, check_stdout=False)
                except BaseException as e:
                    diffs = ["conversion raised %s: %s" % (type(e).__name__, str(e)[:160])]
                if diffs:
                    if len(part["violations"]) < 3:
                        part["violations"].append({
                            "payload": program_payload(src, cfg, sched, 0, check_globals=False, check_stdout=False),
                            "diffs": diffs, "what": "if-branch with a falsy/truthy single statement (%s)" % env.cfg_name(cfg)})
                    break
    return part


def run(report):
    quick = report.tier == "quick"
    bound = 4 if quick else 5
    report.rule = RULE
    items = []
    sizes = {}
    for placement in cf.PLACEMENTS:
        in_func = cf.placement_in_func(placement)
        for n in range(1, bound + 1):
            total = cf.count(n, in_func)  # fills the cache before the fork
            sizes["%s:n=%d" % (placement, n)] = total
            nsh = 1 if total < 200 else (8 if total < 5000 else 64)
            items += [(placement, n, s, nsh) for s in range(nsh)]
    if not quick:
        # size 6 completely for the two placements where every statement kind is legal
        for placement in ("func", "module"):
            total = cf.count(6, cf.placement_in_func(placement))
            sizes["%s:n=6" % placement] = total
            items += [(placement, 6, s, 256) for s in range(256)]
    items.sort(key=lambda it: -sizes["%s:n=%d" % (it[0], it[1])] // it[3])
    for part in env.pmap(_sweep_shard, items):
        report.absorb(part)
    from ..gen import ww
    for part in env.pmap(ww.shard, [(i, env.NPROC, "behaviour") for i in range(env.NPROC)]):
        report.absorb(part)
    for part in env.pmap(_falsy_shard, [(i, env.NPROC) for i in range(env.NPROC)]):
        report.absorb(part)
    report.extra["falsy_body_family"] = {"values": len(FALSY) + len(TRUTHY), "body_forms": len(BODY_FORMS), "shapes": 6}
    report.extra["exhaustive_family"] = {"bound_n": bound, "skeleton_counts": sizes,
                                         "schedules": list(SCHEDS)}
    report.exhaustive = True
    # sampled larger skeletons
    n_sh = env.NPROC
    per = (500 if quick else 4000)
    sitems = [(env.sub_seed(report.seed, "C05", "sample", i), per, 10 if quick else 14)
              for i in range(n_sh)]
    for part in env.pmap(_sample_shard, sitems):
        report.absorb(part)
    report.extra["sampled_family"] = {"examples_per_shard": per, "shards": n_sh,
                                      "sizes": "5..%d" % (10 if quick else 14)}
    # host dimension: the same family (smaller bound) converted and run under the other hosts
    from .. import hosts
    others = hosts.available_other_hosts()
    hb = 3 if quick else 4
    cases = []
    for placement in cf.PLACEMENTS:
        for n in range(1, hb + 1):
            sks = cf.enumerate_skeletons(n, cf.placement_in_func(placement))
            for idx, sk in enumerate(sks):
                cases.append((cf.program(sk, placement), [_cfgs_for(idx)[idx % 4]]))
    hitems = []
    for h in others:
        for sched in (0, 2, 4):
            sub = cases[sched // 2::3]
            hitems.append((h, sub, {"check_globals": False, "check_stdout": False, "sched": sched},
                           "control-flow trace differs"))
    for part in env.pmap(hosts.host_shard, hitems):
        report.absorb(part)
    report.extra["other_hosts"] = others
    report.extra["host_family"] = {"bound_n": hb, "cases_per_host": len(cases)}
    report.notes.append("exhaustive:true refers to the enumerated family up to bound_n only; "
                        "larger skeletons are sampled")
    report.assumptions += [
        "CPython's own execution of the skeleton is the reference trace",
        "probe functions M/C/W/R/IT are deterministic functions of (schedule, site, k)",
    ]


def replay(payload):
    return replay_program(payload)
