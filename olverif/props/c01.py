"""C01 - the converted one-liner behaves exactly like the source script.

Domain   G-PROG programs x all 8 configurations, plus the repository's test scripts and the
         pool programs as seed corpus.
         Plus the SPECIALISED DOMAINS: the quick-tier case sets of the engines whose cases are whole
         programs decided by this same oracle (C05 control-flow skeletons, C06 scope trees, C07
         evaluation-order templates, C13 assignment families), under a seed of their own; C11/C12
         programs under the plain oracle; G-NEST, the deterministic sweep of construct interactions.
Oracle   stdout equality; canonical equality of every user global; added names restricted to
         __ol_* / itertools / importlib; any exception from conversion or evaluation fails.
"""
from .. import env, hyp
from ..gen import pool, prog
from ..kit import run_code
from ..oracle import check_program, program_payload, replay_program, reduce_violation
from ..runner import new_part, key_hash, open_switches

RULE = ("programs are drawn by the typed, scope-aware generator G-PROG (Hypothesis composite; "
        "5-30 statements, nesting <= 4; assignment forms, destructuring, augmented assignment, "
        "if/elif/else, for/while with else, break/continue/return, def with every parameter kind, "
        "defaults, decorators, closures, global/nonlocal, recursion, classes with inheritance, "
        "super(), static/class methods, properties, comprehensions, lambdas, walrus, f-strings, "
        "imports) and each is converted and evaluated under all 8 configurations; the pool and the "
        "repository's 16 scripts are run as well. Originals that raise are discarded and counted. "
        "Non-trivial: >= 8 statements, >= 1 compound statement and >= 3 distinct feature tags "
        "from the core list; distinct by source text. Specialised domains: the quick case sets of "
        "the C05/C06/C07/C13 engines (whole programs, same oracle) are run under a derived seed; "
        "their classes are reported with the engine's prefix and their own non-triviality rule; the "
        "function templates of C11 and a seeded stride of the class-skeleton product of C12 run as plain "
        "programs (2 configurations by rotation). Interactions (G-NEST): every construct inside every "
        "other one - 19 containers x 19 containers x 25 items, 19 containers x 25 x 25 adjacent items, "
        "four containers deep x 26 items, every item TWICE in one scope with the first copy guarded (never / "
        "always / schedule-dependent branch, zero-iteration loop; 19 containers x 26 items x 5 forms), 4 000 (thorough 40 000) seeded random programs 3-5 containers "
        "deep with 1-3 items; 2 probe schedules, one configuration by rotation (thorough: 3 "
        "schedules, all 8). Data values: the same programs, the pool and the zoo with their literals "
        "rewritten into falsy values, negative numbers, empty collections or non-ASCII text (one mode by "
        "rotation); variants whose original raises are discarded.")

# engines whose cases are whole programs compared by oracle.check_program / kit.compare_obs, i.e.
# by exactly what C01 states (a probe is a print the user could have written)
SPECIALISED = ("C05", "C06", "C07", "C13")


def _plain_shard(item):
    """whole programs of the C11 / C12 engines under the plain C01 oracle (their own oracles - call
    batteries, class inspection - stay with those properties)"""
    part = new_part()
    for label, src, k in item:
        o = run_code(src, "exec")
        if not o["ok"]:
            part["discarded"]["%s:original-raises:%s" % (label, o["err"])] += 1
            continue
        part["evaluations"] += 1
        part["classes"][label] += 1
        part["nontrivial"].add(key_hash(src))
        cfgs = [env.ALL_CFGS[k % 8], env.ALL_CFGS[(k + 5) % 8]]
        status, failures, _ = check_program(src, cfgs, orig=o)
        if status == "fail" and len(part["violations"]) < 3:
            cfg, diffs, text = failures[0]
            part["violations"].append({"payload": program_payload(src, cfg), "diffs": diffs,
                                       "what": "[%s] program behaves differently after conversion (%s)" % (label, env.cfg_name(cfg))})
    return part


def _nest_shard(item):
    """G-NEST: container[container[item]] / container[item; item] / four containers deep"""
    from ..gen import nest
    from ..kit import Kit
    idx, nshards, all8 = item[:3]
    part = new_part()
    cases = nest.catalogue()
    if len(item) > 3:
        # seeded random programs 3-5 containers deep with 1-3 items
        cases += [("nest", cs, its) for cs, its in nest.random_deep(item[3], 4000 if not all8 else 40000)]
    for k in range(idx, len(cases), nshards):
        entry = cases[k]
        src = nest.build_any(entry)
        if entry[0] == "nest":
            cs, its = entry[1], entry[2]
        else:
            cs, its = (entry[1],), (entry[2], entry[2])
        if src is None:
            part["discarded"]["nest:item-does-not-fit-the-hole"] += 1
            continue
        for sched in ((0, 2, 5) if all8 else (0, 2)):
            o = run_code(src, "exec", Kit(sched, 200000))
            if not o["ok"]:
                part["discarded"]["nest:original-raises:%s" % o["err"]] += 1
                continue
            part["evaluations"] += 1
            part["classes"]["nest:%d-containers-%d-items" % (len(cs), len(its)) if entry[0] == "nest" else "nest:repeated-item"] += 1
            part["nontrivial"].add(key_hash(entry, sched))
            cfgs = env.ALL_CFGS if all8 else [env.ALL_CFGS[(k + sched) % 8]]
            status, failures, _ = check_program(src, cfgs, sched, orig=o)
            if status == "fail":
                cfg, diffs, text = failures[0]
                if len(part["violations"]) < 3:
                    part["violations"].append({"payload": program_payload(src, cfg, sched), "diffs": diffs,
                                               "what": "[interaction %s] behaves differently after conversion (%s)"
                                                       % (nest.label(entry), env.cfg_name(cfg))})
                break
    if idx == 0:
        part["samples"].append(nest.build(("closure", "for_break"), ("return_cond",)))
    return part


def _perturbed_shard(item):
    """data-value variety (gen/perturb.py): the interaction programs, the pool and the zoo with their
    literals rewritten into falsy values / negative numbers / empty collections / non-ASCII text.
    Each variant is a program of its own (its original against its conversion); variants whose
    original raises or runs away are outside the domain"""
    from ..gen import nest, perturb
    from ..kit import Kit
    idx, nshards, all8 = item
    part = new_part()
    cases = nest.catalogue()
    sources = []
    for k in range(idx, len(cases), nshards):
        src = nest.build_any(cases[k])
        if src is not None:
            sources.append((k, src))
    progs = sorted(pool.all_programs().items())
    for j in range(idx, len(progs), nshards):
        for m in range(len(perturb.MODES)):
            sources.append((j * 4 + m, progs[j][1]))
    for k, src in sources:
        mode = perturb.MODES[k % len(perturb.MODES)]
        v = perturb.perturb(src, mode)
        if v is None:
            part["discarded"]["perturb:nothing-to-change"] += 1
            continue
        for sched in (0, 2):
            o = run_code(v, "exec", Kit(sched, 200000), wall=3)
            if not o["ok"]:
                part["discarded"]["perturb:%s:original-raises" % mode] += 1
                continue
            part["evaluations"] += 1
            part["classes"]["perturbed:" + mode] += 1
            part["nontrivial"].add(key_hash(v, sched))
            cfgs = env.ALL_CFGS if all8 else [env.ALL_CFGS[(k + sched) % 8]]
            status, failures, _ = check_program(v, cfgs, sched, orig=o)
            if status == "fail":
                cfg, diffs, text = failures[0]
                if len(part["violations"]) < 3:
                    part["violations"].append({"payload": program_payload(v, cfg, sched), "diffs": diffs,
                                               "what": "[%s-valued variant] behaves differently after conversion (%s)" % (mode, env.cfg_name(cfg))})
                break
    return part


def plain_programs(report):
    from . import c11, c12
    quick = report.tier == "quick"
    progs = [("c11:template", src + "\n", i) for i, src in enumerate(c11.TEMPLATES)]
    cases = list(c12.all_cases())
    stride = 73 if quick else 11
    off = report.seed % stride
    for i, case in enumerate(cases[off::stride]):
        bk, mk, kk, dk, ms, where = case
        progs.append(("c12:class-case", c12.PRE + c12.place(c12.class_source(bk, mk, kk, dk, ms), where), i))
    n = env.NPROC * 2
    for part in env.pmap(_plain_shard, [progs[i::n] for i in range(n)]):
        report.absorb(part)
    for part in env.pmap(_nest_shard, [(i, n, not quick, env.sub_seed(report.seed, "C01", "deep")) for i in range(n)]):
        report.absorb(part)
    for part in env.pmap(_perturbed_shard, [(i, n, not quick) for i in range(n)]):
        report.absorb(part)
    # host dimension of the interaction sweep: a seeded stride under the other host interpreters
    from .. import hosts
    from ..gen import nest
    others = hosts.available_other_hosts()
    if others:
        ncases = nest.catalogue()
        stride = 29 if quick else 5
        hcases = []
        for k in range(report.seed % stride, len(ncases), stride):
            src = nest.build_any(ncases[k])
            if src is not None:
                hcases.append((src, [env.ALL_CFGS[k % 8]]))
        # ... and the pool (with the zoo and the version-sensitive programs) under the other hosts
        from . import c15
        f31 = "fstring-field-string-literal" in open_switches("C01")
        pcases = []
        for i, (name, src) in enumerate(sorted(pool.all_programs().items()) + sorted(pool.VERSION_SENSITIVE.items())):
            if name in ("long_string_in_field", "zoo_fstrings_pep701"):
                continue        # host 3.12+ syntax in the SOURCE
            if name.startswith("vs_long_"):
                continue        # size is C17's subject (the recursive stdlib unparser gives up on them: open finding F34a)
            cfgs = [env.ALL_CFGS[i % 8], env.ALL_CFGS[(i + 5) % 8]]
            old_cfgs = cfgs
            if f31:
                # open finding F31 (applies to C01). A host runs its OWN output here, so only refusals matter:
                # before 3.12 the stdlib unparser refuses fields whose literals need a backslash (and is not
                # trusted with any literal in a field), the project's unparser refuses real escapes only
                # (nested f-strings are fine there since fix 7395216)
                drop_stdlib = c15.has_field_string_literal(src) or c15.has_field_literal_needing_escape(src)
                drop_own = c15.has_field_literal_needing_escape(src, nested_counts=False)
                old_cfgs = [c for c in cfgs if not (drop_stdlib if c[0] == "ast.unparse" else drop_own)]
                if len(old_cfgs) != len(cfgs):
                    n0 = report.exclusions.get("fstring-field-string-literal", 0)
                    report.exclusions["fstring-field-string-literal"] = (n0 if isinstance(n0, int) else 0) + 1
            pcases.append((src, cfgs, old_cfgs))
        report.extra["pool_programs_per_other_host"] = len(pcases)
        per_host = max(1, env.NPROC // len(others))
        hitems = []
        for h in others:
            old = tuple(int(x) for x in h.split(".")) < (3, 12)
            mine = [(src, oc if old else c) for (src, c, oc) in pcases if (oc if old else c)] + hcases
            hitems += [(h, mine[j::per_host], {}, "[interaction] program behaves differently after conversion")
                       for j in range(per_host)]
        for part in env.pmap(hosts.host_shard, hitems):
            report.absorb(part)
        report.extra["interaction_programs_per_other_host"] = len(hcases)


def specialised_domains(report):
    import importlib
    from ..runner import Report
    plain_programs(report)
    for name in SPECIALISED:
        eng = importlib.import_module("olverif.props.%s" % name.lower())
        sub = Report(name, "quick", env.sub_seed(report.seed, "C01-specialised", name) % (1 << 31))
        eng.run(sub)
        report.evaluations += sub.evaluations
        report.nontrivial.update(sub.nontrivial)
        report.nontrivial_extra += sub.nontrivial_extra
        for k, v in sub.classes.items():
            report.classes["%s:%s" % (name.lower(), k)] += v
        for k, v in sub.discarded.items():
            report.discarded["%s:%s" % (name.lower(), k)] += v
        for k, v in sub.exclusions.items():
            report.exclusions["%s:%s" % (name.lower(), k)] = v
        report.extra["specialised_%s_evaluations" % name.lower()] = sub.evaluations
        for v in sub.violations:
            if v["payload"].get("kind") == "program":
                v = dict(v, what="[%s domain] %s" % (name, v.get("what", "")))
                report.violations.append(v)
            else:
                report.notes.append("a %s-domain failure of payload kind %r is left to that property's own check"
                                    % (name, v["payload"].get("kind")))


def check_one(part, p, seed):
    o = run_code(p.source, "exec")
    if not o["ok"]:
        part["discarded"]["original-raises:" + str(o["err"])] += 1
        return None
    part["evaluations"] += 1
    for t in p.tags:
        part["classes"]["tag:" + t] += 1
    if prog.nontrivial(p):
        part["nontrivial"].add(key_hash(p.source))
        if len(part["samples"]) < 1 and len(p.source) < 1500:
            part["samples"].append(p.source)
    status, failures, _ = check_program(p.source, env.ALL_CFGS, seed=seed & 0xffff, orig=o)
    part["extra"]["config_runs"] = part["extra"].get("config_runs", 0) + 8
    if status == "fail":
        cfg, diffs, text = failures[0]
        return {"payload": program_payload(p.source, cfg, 0, seed & 0xffff), "diffs": diffs,
                "what": "generated program behaves differently after conversion (%s)" % env.cfg_name(cfg)}
    return None


def _shard(item):
    seed, n, switches, host, n_host = item
    part = new_part()
    kept = []

    def body(p):
        v = check_one(part, p, seed)
        if v is None and len(kept) < n_host and prog.nontrivial(p):
            kept.append((p.source, list(env.ALL_CFGS)))
        return v

    calls, v = hyp.search(prog.program_strategy(switches), body, seed, n, key=lambda p: p.source)
    if v:
        part["violations"].append(reduce_violation(v))
    elif host and kept:
        # host dimension: the same programs converted AND run under another interpreter
        from .. import hosts
        hosts.inline_host_checks(part, kept, host, {}, "generated program behaves differently after conversion")
    return part


def _corpus_shard(item):
    name, src = item
    part = new_part()
    o = run_code(src, "exec")
    if not o["ok"]:
        part["discarded"]["corpus-original-raises"] += 1
        return part
    part["evaluations"] += 1
    part["classes"]["corpus"] += 1
    part["nontrivial"].add(key_hash(src))
    status, failures, _ = check_program(src, env.ALL_CFGS, orig=o)
    if status == "fail":
        cfg, diffs, text = failures[0]
        part["violations"].append({"payload": program_payload(src, cfg), "diffs": diffs,
                                   "what": "corpus program %s behaves differently (%s)" % (name, env.cfg_name(cfg))})
    return part


def run(report):
    quick = report.tier == "quick"
    report.rule = RULE
    switches = sorted(open_switches('C01'))
    for s in switches:
        report.exclusions[s] = "shape not generated (open finding)"
    progs = pool.all_programs()
    for part in env.pmap(_corpus_shard, sorted(progs.items())):
        report.absorb(part)
    per = 150 if quick else 2500
    from .. import hosts
    others = hosts.available_other_hosts()
    report.extra["other_hosts"] = others
    n_host = 12 if quick else 150
    items = [(env.sub_seed(report.seed, "C01", i), per, switches, others[i % len(others)] if others else None, n_host)
             for i in range(env.NPROC)]
    for part in env.pmap(_shard, items):
        report.absorb(part)
    specialised_domains(report)
    report.assumptions += [
        "CPython executing the source is the reference; programs whose original raises are outside the domain",
        "callables are compared as the token 'callable' (a def necessarily becomes a lambda); their behaviour is observed through the calls the program makes",
    ]


def replay(payload):
    return replay_program(payload)
