"""C04 - the custom unparser preserves literals exactly and never emits a line break.

Domain   G-LIT: code points x positions, all short strings over the quote/backslash/brace
         alphabet x positions, bytes, numbers, f-string shapes (conversion x format-spec
         shape x value kind x nesting), Hypothesis text/binary, stdlib literals.
Oracle   text has no \\n/\\r; it parses; parsed tree == input tree incl. Constant values
         (compared by type and repr), conversions and format_spec structure.
"""
import ast
import random

from hypothesis import strategies as st

from .. import env, hyp
from ..gen import expr as gx
from ..gen import lit
from ..runner import new_part, key_hash
from . import c03

RULE = ("literals are generated as source text, parsed by the host, and the parsed tree is "
        "unparsed: (a) every code point 0..0x2FF, line-break-like code points, lone surrogates "
        "and a seeded sample of every plane, (b) all strings of length <= 4 over "
        "{' \" \\ { } newline a}, each placed in up to 14 positions (constant, f-string literal "
        "part, string inside a replacement field / subscript / dict key / call with conversion, "
        "inside a nested format-spec field, inside 2- and 3-fold nested f-strings, format-spec "
        "literal); (c) every byte value and Hypothesis byte strings; (d) numeric literals incl. "
        "overflowing floats, imaginary, huge ints; (e) f-string shapes conversion x format-spec "
        "shape x value kind, nesting depth 1 and 2 completely and depth 3 sampled; (f) every "
        "Constant/JoinedStr of the standard library; (g) Hypothesis text(). Non-trivial: the "
        "payload has a character that needs escaping or doubling in its position, or the "
        "f-string has a conversion or a format spec, or the number is non-finite/huge; "
        "distinct by source text.")


def literal_diffs(tree):
    try:
        txt = c03._unparse(tree)
    except BaseException as e:
        return ["expr_unparse raised %s: %s" % (type(e).__name__, str(e)[:200])]
    if "\n" in txt or "\r" in txt:
        return ["unparsed text contains a line break: %r" % txt[:200]]
    return c03.roundtrip_diffs(tree)


def check_src(part, src, nontrivial, tag):
    try:
        tree = ast.parse(src, mode="eval").body
    except (SyntaxError, ValueError, RecursionError, MemoryError):
        part["discarded"]["host-parser-rejects"] += 1
        return
    part["evaluations"] += 1
    part["classes"][tag.split(":")[0]] += 1
    if nontrivial:
        part["nontrivial"].add(key_hash(src))
    diffs = literal_diffs(tree)
    if diffs and len(part["violations"]) < 4:
        part["violations"].append({"payload": {"kind": "expr", "source": src}, "diffs": diffs,
                                   "what": "literal not preserved (%s)" % tag})


def _strings_shard(strings):
    part = new_part()
    for s in strings:
        nt = lit.needs_escape(s)
        for pos, src in lit.positions(s):
            check_src(part, src, nt, "str:" + pos)
    if strings:
        part["samples"] = [list(lit.positions(strings[len(strings) // 2]))[5][1]]
    return part


def _bytes_shard(item):
    seed, n = item
    part = new_part()
    for b in range(256):
        for pos, src in lit.bytes_positions(bytes([b])):
            check_src(part, src, True, "bytes:" + pos)
        for pos, src in lit.bytes_positions(bytes([b, 0x27, b, 0x5C])):
            check_src(part, src, True, "bytes:" + pos)

    def body(b):
        sub = new_part()
        for pos, src in lit.bytes_positions(b):
            check_src(sub, src, True, "bytes:" + pos)
        part["evaluations"] += sub["evaluations"]
        part["nontrivial"] |= sub["nontrivial"]
        part["classes"].update(sub["classes"])
        return sub["violations"][0] if sub["violations"] else None

    calls, v = hyp.search(st.binary(max_size=40), body, seed, n)
    if v:
        part["violations"].append(v)
    return part


def _numbers_shard(item):
    seed, n = item
    part = new_part()
    for src in lit.NUMBERS:
        check_src(part, src, True, "num:fixed")
        check_src(part, "f'{" + src + "}'", True, "num:in-field")
        check_src(part, "x[" + src + "].a", True, "num:attr-of-subscript")
        check_src(part, "(" + src + ").real", True, "num:attribute")
        check_src(part, "(" + src + ") ** 2", True, "num:pow")
    part["samples"] = ["(1e309j).real", "0x" + "f" * 20 + "... (4000 hex digits)"]

    def body(case):
        kind, v = case
        if kind == "int":
            src = repr(v) if v >= 0 else "(%r)" % v
            srcs = [src, hex(abs(v)), "(%s).bit_length()" % src]
        elif kind == "float":
            src = repr(abs(v))
            if src in ("inf", "nan"):
                src = "1e309"
            srcs = [src, src + "j", "(%s).hex()" % src, "-" + src]
        else:
            srcs = []
        sub = new_part()
        for s in srcs:
            check_src(sub, s, True, "num:" + kind)
        part["evaluations"] += sub["evaluations"]
        part["nontrivial"] |= sub["nontrivial"]
        part["classes"].update(sub["classes"])
        return sub["violations"][0] if sub["violations"] else None

    strat = st.one_of(
        st.tuples(st.just("int"), st.integers()),
        st.tuples(st.just("int"), st.integers(10 ** 30, 10 ** 400)),
        st.tuples(st.just("float"), st.floats(allow_nan=False)),
    )
    calls, v = hyp.search(strat, body, seed, n)
    if v:
        part["violations"].append(v)
    return part


def _shapes_shard(item):
    kind, shard, nshards, seed, n = item
    part = new_part()
    if kind == "d1":
        seq = list(lit.shapes_depth1())
    elif kind == "d2":
        seq = list(lit.shapes_depth2())
    else:
        seq = list(lit.shapes_depth3(random.Random(seed), n))
        nshards, shard = 1, 0
    for i in range(shard, len(seq), nshards):
        tag, src = seq[i]
        nt = any(t and (t[0] in "!:=") for t in tag if isinstance(t, str))
        check_src(part, src, nt, "fshape:" + tag[0])
    if seq:
        part["samples"] = [seq[min(len(seq) - 1, shard * 7 + 3)][1]]
    return part


def _text_shard(item):
    seed, n = item
    part = new_part()

    def body(s):
        sub = new_part()
        nt = lit.needs_escape(s)
        for pos, src in lit.positions(s):
            check_src(sub, src, nt, "text:" + pos)
        part["evaluations"] += sub["evaluations"]
        part["nontrivial"] |= sub["nontrivial"]
        part["classes"].update(sub["classes"])
        part["discarded"].update(sub["discarded"])
        return sub["violations"][0] if sub["violations"] else None

    alphabet = st.one_of(st.characters(), st.sampled_from(lit.ALPHABET + ["\r", "\x00", " ", "\ud800", "\x85"]))
    calls, v = hyp.search(st.text(alphabet, max_size=12), body, seed, n)
    if v:
        part["violations"].append(v)
    return part


def _corpus_shard(files):
    part = new_part()
    seen = set()
    for path in files:
        try:
            with open(path, encoding="utf8") as fh:
                tree = ast.parse(fh.read())
        except (SyntaxError, ValueError, UnicodeDecodeError, RecursionError, OSError):
            continue
        specs = set()
        for node in ast.walk(tree):
            if isinstance(node, ast.FormattedValue) and node.format_spec is not None:
                specs.add(id(node.format_spec))  # not an expression on its own
        for node in ast.walk(tree):
            if id(node) in specs:
                continue
            if isinstance(node, ast.JoinedStr) or (
                    isinstance(node, ast.Constant) and isinstance(node.value, (str, bytes, int, float, complex))
                    and not isinstance(node.value, bool)):
                d = ast.dump(node)
                h = key_hash(d)
                if h in seen:
                    continue
                seen.add(h)
                part["evaluations"] += 1
                part["classes"]["corpus:" + type(node).__name__] += 1
                nt = isinstance(node, ast.JoinedStr) or (
                    isinstance(node.value, str) and lit.needs_escape(node.value)) or isinstance(node.value, (bytes, float, complex))
                if nt:
                    part["nontrivial"].add(h)
                diffs = literal_diffs(node)
                if diffs and len(part["violations"]) < 3:
                    part["violations"].append({"payload": {"kind": "ast", "dump": d}, "diffs": diffs,
                                               "what": "stdlib literal %s:%d not preserved" % (path, node.lineno)})
    return part


def field_literal_positions():
    """one f-string each: a string literal somewhere below the field's expression - below nodes that are
    not expressions (keyword, comprehension, lambda arguments, slice) and in the fields of format specs"""
    sq = chr(39)
    lit = sq + "k" + sq
    inners = ["dict(a=%s)", "f(x, k=%s)", "f(**{%s: 1})", "[w for w in y if w != %s]", "[w for w in %s]", "{k: %s for k in y}",
              "{c + %s for c in y}", "(w for w in y if %s)", "(lambda z=%s: z)()", "(lambda *, z=%s: z)()", "y[%s:]", "y[::len(%s)]",
              "y[1, %s:2]", "x if %s else y", "[*%s]", "f(*%s)", "d[%s]", "d[%s].a", "%s.join(y)", "not %s", "x < %s < y",
              "(w := %s)", "await_(%s)", "{%s: 1}", "{%s}", "(%s,)", "-len(%s)", "x and %s", "f(%s)(%s)"]
    out = []
    for t in inners:
        e = t.replace("%s", lit)
        if e.startswith("{"):
            e = " " + e + " "
        out.append('f"{' + e + '}"')
        out.append('f"{x:{' + e + '}}"')
        out.append('f"a{x!r:>{' + e + '}.{' + e + '}}b"')
        out.append('f"{' + e + ':{' + e + '}}"')
    return out


def quote_heavy_nests():
    """f-strings nested three and four levels deep (all four kinds of quotes, valid before 3.12) whose
    OUTER literal text begins / ends with quotes, holds three in a row or a backslash"""
    sq, dq = chr(39), chr(34)
    pieces = ["", "x", "\\" + sq, ("\\" + sq) * 3, "a\\" + sq, "\\" + dq, ("\\" + dq) * 3, "\\" + sq + "\\" + dq,
              "\\\\", "{{", "\\n", sq, sq * 2, dq + sq]
    out = []
    t3, t3s = dq * 3, sq * 3
    for p1 in pieces:
        for p2 in pieces:
            if (p1 + p2).count(dq * 3) or p2.endswith(dq) and not p2.endswith("\\" + dq):
                continue
            inner3 = "f" + t3s + "{f" + dq + "{x}" + dq + "}" + t3s
            inner4 = "f" + t3s + "{f" + dq + "{d[" + sq + "k" + sq + "]}" + dq + "}" + t3s
            out.append("f" + t3 + p1 + "{" + inner3 + "}" + p2 + t3)
            out.append("f" + t3 + p1 + "{" + inner4 + "!r:>9}" + p2 + t3)
    return out


def run(report):
    quick = report.tier == "quick"
    report.rule = RULE
    rng = random.Random(env.sub_seed(report.seed, "C04", "planes"))
    strings = list(lit.short_strings(4))
    strings += [chr(c) for c in lit.code_points(rng, 16 if quick else 400)]
    strings += [chr(c) + "'" + chr(c) for c in lit.LINEBREAKS + lit.SURROGATES]
    n = env.NPROC * 4
    for part in env.pmap(_strings_shard, [strings[i::n] for i in range(n)]):
        report.absorb(part)
    report.extra["strings_enumerated"] = len(strings)
    items = [(_bytes_shard, (env.sub_seed(report.seed, "C04", "bytes"), 300 if quick else 20000)),
             (_numbers_shard, (env.sub_seed(report.seed, "C04", "num"), 500 if quick else 30000))]
    nsh = env.NPROC
    items += [(_shapes_shard, ("d1", 0, 1, 0, 0))]
    items += [(_shapes_shard, ("d2", s, nsh, 0, 0)) for s in range(nsh)]
    items += [(_shapes_shard, ("d3", 0, 1, env.sub_seed(report.seed, "C04", "d3", s), 250 if quick else 8000))
              for s in range(nsh)]
    items += [(_text_shard, (env.sub_seed(report.seed, "C04", "text", s), 150 if quick else 6000))
              for s in range(nsh)]
    files = c03.stdlib_files()
    if files:
        if quick:
            files = sorted(random.Random(env.sub_seed(report.seed, "C04", "corpus")).sample(files, len(files) // 4))
        items += [(_corpus_shard, files[i::nsh * 2]) for i in range(nsh * 2)]
    else:
        report.notes.append("standard library sources not found; corpus family skipped")
    # host dimension: the f-string shapes and the literal positions of a seeded sample of the strings,
    # round-tripped by the unparser running under the other host interpreters
    from .. import hosts as _hosts
    others = _hosts.available_other_hosts()
    if others:
        hs = [src for tag, src in lit.shapes_depth1()] + [src for tag, src in lit.shapes_depth2()]
        hs += [src for tag, src in lit.shapes_depth3(random.Random(env.sub_seed(report.seed, "C04", "hd3")), 500 if quick else 8000)]
        srng = random.Random(env.sub_seed(report.seed, "C04", "hstr"))
        for st_ in srng.sample(strings, min(len(strings), 1500 if quick else 20000)):
            hs += [src for pos, src in lit.positions(st_)]
        hs += quote_heavy_nests() + field_literal_positions()
        per = max(1, env.NPROC // len(others))
        items += [(c03.host_roundtrip_shard, (h, hs[j::per], "C04")) for h in others for j in range(per)]
        report.extra["other_hosts"] = others
        report.extra["host_sources"] = len(hs)
    for part in env.pmap(_call, items):
        report.absorb(part)
    report.exhaustive = True
    report.notes.append("exhaustive:true refers to families (a) 0..0x2FF, (b), byte values and "
                        "f-string shapes of depth 1 and 2; the rest is sampled")
    report.assumptions += ["host parser 3.12 (PEP 701) defines the input trees",
                           "Constant values compared by type and repr"]


def _call(item):
    f, arg = item
    return f(arg)


def replay(payload):
    if payload.get("kind") == "expr-host":
        return c03.replay_expr_host(payload)
    k = payload.get("kind")
    if k == "expr":
        try:
            tree = ast.parse(payload["source"], mode="eval").body
        except SyntaxError as e:
            return ["witness source does not parse on this host: %s" % e]
        return literal_diffs(tree)
    if k == "ast":
        return literal_diffs(c03._ast_from_dump(payload["dump"]))
    raise env.HarnessError("unknown replay payload kind %r" % k)
