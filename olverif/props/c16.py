"""C16 - the command line writes exactly the API result and validates options.

Domain   Hypothesis draws (pool program, line ending, option list in both -C spellings with
         repeats and the deprecated --unparser, output mode) and invalid option lists (unknown
         names incl. real attribute names of the options object, malformed items, illegal values).
Oracle   valid: exit 0, bytes of OUT == UTF-8 of the library result for the decoded file under
         the modelled options (modulo __ol_ suffixes; stdout: + one newline), and the text
         evaluates like the script. invalid: non-zero exit, output path untouched.
"""
import os
import shutil
import subprocess
import sys
import tempfile

from hypothesis import strategies as st

from .. import env, hyp
from ..gen import pool
from ..kit import run_code
from ..runner import new_part, key_hash
from .c10 import normalise, OPTIONS, DEFAULTS

RULE = ("each case is one `python -m oneliner` process on a scratch file holding a pool program "
        "(LF or CRLF line ends, optional non-ASCII tail line) with 0-4 -C items (both spellings, "
        "repeats, optional deprecated --unparser) and output to a new file / an existing file / "
        "stdout; in the invalid family one item is an unknown name (random identifier or a real "
        "attribute of the options object), malformed (no '=', two '=', empty name/value) or an "
        "illegal value, at any position of the list. Non-trivial: at least one -C item or an "
        "invalid list; distinct by (program, argv shape).")

ATTR_NAMES = ["config_names", "__doc__", "__class__", "__dict__", "__module__", "__init__",
              "__weakref__", "__eq__", "__hash__", "__dir__", "__repr__"]
SENTINEL = b"SENTINEL-CONTENT-MUST-SURVIVE\n"

PROGRAMS = None


def programs():
    global PROGRAMS
    if PROGRAMS is None:
        PROGRAMS = dict(pool.POOL)
    return PROGRAMS


def case_strategy(names):
    legal_item = st.sampled_from(sorted(OPTIONS)).flatmap(
        lambda n: st.tuples(st.just(n), st.sampled_from(OPTIONS[n]), st.booleans()))
    ident = st.text("abcdefghijklmnopqrstuvwxyz_", min_size=1, max_size=8).filter(
        lambda s: s not in OPTIONS)
    bad_value = st.sampled_from(["", "AST.UNPARSE", "oneliner ", " list", "If_expr", "none", "0",
                                 "list", "oneliner", "short_circuit", "if_expr", "chain_call", "ast.unparse"])
    invalid = st.one_of(
        st.tuples(st.just("unknown"), ident, st.just("x")),
        st.tuples(st.just("attr"), st.sampled_from(ATTR_NAMES), st.sampled_from(["x", "oneliner", ""])),
        st.tuples(st.just("noeq"), st.sampled_from(sorted(OPTIONS) + ["x"]), st.just("")),
        st.tuples(st.just("twoeq"), st.sampled_from(sorted(OPTIONS)), st.sampled_from(["a=b", "oneliner=", "=list"])),
        st.tuples(st.just("emptyname"), st.just(""), st.sampled_from(["oneliner", "x"])),
        st.sampled_from(sorted(OPTIONS)).flatmap(lambda n: st.tuples(
            st.just("illegal"), st.just(n), bad_value.filter(lambda v: v not in OPTIONS[n]))),
        st.tuples(st.just("dep_unparser"), st.just("--unparser"), st.sampled_from(["list", "ONELINER", ""])),
        st.tuples(st.just("case"), st.sampled_from(["Unparser", "UNPARSER", "if-style", "expr_wrapper "]),
                  st.sampled_from(["oneliner", "list"])),
    )
    return st.fixed_dictionaries({
        "prog": st.sampled_from(names),
        "eol": st.sampled_from(["\n", "\r\n"]),
        "tail": st.sampled_from(["", "s = 'héllo 世界'\nprint(s)\n", "print('\U0001F600'.encode('utf8'))\n"]),
        "opts": st.lists(legal_item, max_size=4),
        "dep": st.sampled_from([None, None, "ast.unparse", "oneliner"]),
        "out": st.sampled_from(["new", "existing", "stdout"]),
        "invalid": st.one_of(st.none(), invalid),
        "pos": st.integers(0, 4),
        "order": st.sampled_from(["opts-file-out", "out-opts-file", "file-out-opts", "opts-out-file", "file-opts-out"]),
    })


def model_options(case):
    o = dict(DEFAULTS)
    for n, v, _ in case["opts"]:
        o[n] = v
    if case["dep"] is not None:
        o["unparser"] = case["dep"]
    return o


_HOST_API = ("import sys, random\nsys.path.insert(0, sys.argv[1])\nimport oneliner\nfrom oneliner.config import Configs\n"
             "c = Configs()\nc.unparser, c.expr_wrapper, c.if_style = sys.argv[3:6]\nrandom.seed(0)\n"
             "src = open(sys.argv[2], 'r', encoding='utf8').read()\nsys.stdout.write(oneliner.convert_code_string(src, configs=c))\n")


def host_exe(case):
    """the interpreter that runs the command line: this one, or another host of the image"""
    h = case.get("host")
    if not h:
        return sys.executable
    from .. import interp
    found = interp.discover()
    if h not in found:
        raise env.HarnessError("host interpreter %s not found" % h)
    return found[h]


def build_argv(case, infile, outfile):
    argv = [host_exe(case), "-m", "oneliner"]
    items = []
    for n, v, joined in case["opts"]:
        items.append(["-C%s=%s" % (n, v)] if joined else ["-C", "%s=%s" % (n, v)])
    inv = case["invalid"]
    dep_bad = None
    if inv is not None:
        kind, n, v = inv
        if kind == "dep_unparser":
            dep_bad = v
        else:
            if kind == "noeq":
                arg = n
            else:
                arg = "%s=%s" % (n, v)
            if arg.startswith("-") or arg == "":
                arg = "x" + arg
            items.insert(min(case["pos"], len(items)), ["-C", arg] if case["pos"] % 2 else ["-C" + arg])
    opts = []
    for it in items:
        opts += it
    if case["dep"] is not None and dep_bad is None:
        opts += ["--unparser", case["dep"]]
    if dep_bad is not None:
        opts += ["--unparser", dep_bad]
    out = ["-o", outfile] if case["out"] != "stdout" else []
    parts = {"opts": opts, "file": [infile], "out": out}
    for key in case.get("order", "opts-file-out").split("-"):
        argv += parts[key]
    return argv


def is_really_invalid(case):
    inv = case["invalid"]
    if inv is None:
        return False
    kind, n, v = inv
    if kind == "illegal":
        return v not in OPTIONS[n]
    return True


def check_case(case, workdir):
    """returns (diffs, argv)"""
    progs = programs()
    src = progs[case["prog"]] + case["tail"]
    data = src.replace("\n", case["eol"]).encode("utf8")
    infile = os.path.join(workdir, "in.py")
    outfile = os.path.join(workdir, "out.txt")
    with open(infile, "wb") as f:
        f.write(data)
    if os.path.exists(outfile):
        os.unlink(outfile)
    if case["out"] == "existing":
        with open(outfile, "wb") as f:
            f.write(SENTINEL)
    argv = build_argv(case, infile, outfile)
    envv = dict(os.environ)
    envv["PYTHONPATH"] = env.REPO
    envv["PYTHONUTF8"] = "1"
    envv["PYTHONWARNINGS"] = "ignore"
    p = subprocess.run(argv, capture_output=True, env=envv, cwd=workdir, timeout=120)
    diffs = []
    if is_really_invalid(case):
        if p.returncode == 0:
            diffs.append("invalid option list accepted (exit status 0): %r" % (argv[3:],))
        if case["out"] == "new" and os.path.exists(outfile):
            diffs.append("output file was created although the option list is invalid")
        if case["out"] == "existing":
            with open(outfile, "rb") as f:
                if f.read() != SENTINEL:
                    diffs.append("existing output file was truncated/overwritten although the option list is invalid")
        if case["out"] == "stdout" and p.returncode == 0 and p.stdout.strip():
            diffs.append("a conversion was printed although the option list is invalid")
        return diffs, argv
    # valid list
    with open(infile, "r", encoding="utf8") as f:
        decoded = f.read()
    mo = model_options(case)
    key = (mo["unparser"], mo["expr_wrapper"], mo["if_style"])
    if case.get("host"):
        # the library call under the SAME interpreter as the command line
        q = subprocess.run([host_exe(case), "-c", _HOST_API, env.REPO, infile] + list(key), capture_output=True,
                           env=envv, cwd=workdir, timeout=120)
        if q.returncode == 0:
            expected, exp_err = q.stdout.decode("utf8"), None
        else:
            expected, exp_err = None, q.stderr.decode("utf8", "replace").strip().split("\n")[-1][:80]
    else:
        try:
            expected = env.convert(decoded, key, 0)
            exp_err = None
        except BaseException as e:
            expected, exp_err = None, type(e).__name__
    if exp_err is not None:
        if p.returncode == 0:
            diffs.append("library call raises %s but the command line exits 0" % exp_err)
        return diffs, argv
    if p.returncode != 0:
        diffs.append("exit status %d for a valid option list; stderr: %s" % (
            p.returncode, p.stderr.decode("utf8", "replace")[-300:]))
        return diffs, argv
    if case["out"] == "stdout":
        got = p.stdout
        want_suffix = b"\n"
    else:
        if not os.path.exists(outfile):
            return ["no output file written"], argv
        with open(outfile, "rb") as f:
            got = f.read()
        want_suffix = b""
        if p.stdout.strip():
            diffs.append("unexpected text on stdout with -o: %r" % p.stdout[:100])
    try:
        got_text = got.decode("utf8")
    except UnicodeDecodeError:
        return ["output is not valid UTF-8"], argv
    want = normalise(expected) + want_suffix.decode()
    if normalise(got_text) != want:
        diffs.append("output differs from the library result:\n  cli %r\n  api %r" % (
            normalise(got_text)[:300], want[:300]))
        return diffs, argv
    # and the text evaluates like the script
    o = run_code(decoded, "exec", want_globals=False)
    if o["ok"] and not case.get("host"):
        c = run_code(got_text.rstrip("\n") if case["out"] == "stdout" else got_text, "eval", want_globals=False)
        if not c["ok"]:
            diffs.append("the written expression raises %s %s" % (c["err"], c["errmsg"]))
        elif c["stdout"] != o["stdout"]:
            diffs.append("the written expression prints %r, the script prints %r" % (c["stdout"][:200], o["stdout"][:200]))
    return diffs, argv


BAD_VALUES = ["", "AST.UNPARSE", "Oneliner", "oneliner ", " list", "If_expr", "none", "0", "list,oneliner",
              "list", "oneliner", "short_circuit", "if_expr", "chain_call", "ast.unparse", "chain-call", "ifexpr"]


def fixed_cases():
    """the finite invalid matrix, swept completely on every run"""
    out = []
    base = {"prog": "if_else", "eol": "\n", "tail": "", "opts": [], "dep": None, "pos": 0, "order": "opts-file-out"}
    for outmode in ("new", "existing", "stdout"):
        for n in sorted(OPTIONS):
            for v in BAD_VALUES:
                if v not in OPTIONS[n]:
                    out.append(dict(base, out=outmode, invalid=("illegal", n, v)))
        for a in ATTR_NAMES:
            out.append(dict(base, out=outmode, invalid=("attr", a, "oneliner")))
        for inv in [("noeq", "unparser", ""), ("noeq", "x", ""), ("twoeq", "unparser", "oneliner=x"),
                    ("twoeq", "if_style", "=if_expr"), ("emptyname", "", "oneliner"),
                    ("unknown", "unparse", "oneliner"), ("unknown", "wrapper", "list"),
                    ("case", "Unparser", "oneliner"), ("case", "IF_STYLE", "if_expr"),
                    ("dep_unparser", "--unparser", "list"), ("dep_unparser", "--unparser", "Oneliner")]:
            out.append(dict(base, out=outmode, invalid=inv))
            # an invalid item AFTER valid ones must still abort before anything is written
            out.append(dict(base, out=outmode, invalid=inv, pos=2,
                            opts=[("unparser", "oneliner", True), ("expr_wrapper", "list", False)]))
            # ... and so must one that FOLLOWS the -o argument on the command line
            out.append(dict(base, out=outmode, invalid=inv, order="out-opts-file"))
            out.append(dict(base, out=outmode, invalid=inv, order="file-out-opts", pos=1,
                            opts=[("if_style", "short_circuit", False)]))
    # valid: every option combination through both spellings
    for key in env.ALL_CFGS:
        for joined in (True, False):
            out.append(dict(base, prog="for_break", out="new", invalid=None,
                            opts=[(n, v, joined) for n, v in zip(("unparser", "expr_wrapper", "if_style"), key)]))
    # ... and every pool program under every option combination (the text must evaluate like the script)
    for i, prog_name in enumerate(sorted(pool.POOL)):
        for j, key in enumerate(env.ALL_CFGS):
            out.append(dict(base, prog=prog_name, out=("new", "stdout", "existing")[(i + j) % 3], invalid=None,
                            opts=[(n, v, (i + j) % 2 == 0) for n, v in zip(("unparser", "expr_wrapper", "if_style"), key)]))
    return out


def host_cases(host):
    """the command line under another host interpreter: every option combination, the deprecated
    --unparser spelling, and a stride of the invalid matrix"""
    out = []
    fixed = fixed_cases()
    base = {"prog": "for_break", "eol": "\n", "tail": "", "opts": [], "dep": None, "pos": 0, "order": "opts-file-out",
            "invalid": None, "host": host}
    for i, key in enumerate(env.ALL_CFGS):
        out.append(dict(base, out=("new", "stdout", "existing")[i % 3],
                        opts=[(n, v, i % 2 == 0) for n, v in zip(("unparser", "expr_wrapper", "if_style"), key)]))
    for dep in ("oneliner", "ast.unparse"):
        for outmode in ("new", "stdout"):
            out.append(dict(base, out=outmode, dep=dep))
            out.append(dict(base, out=outmode, dep=dep, opts=[("expr_wrapper", "list", True)], prog="class_plain"))
    for prog_name in ("fstring", "lambda_walrus", "comprehensions", "if_interrupt_else_tail"):
        out.append(dict(base, prog=prog_name, out="new", opts=[("unparser", "oneliner", True)]))
        out.append(dict(base, prog=prog_name, out="stdout"))
    inv = [c for c in fixed if c.get("invalid") is not None]
    out += [dict(c, host=host) for c in inv[::9]]
    return out


def _shard(item):
    seed, n, names = item
    part = new_part()
    workdir = tempfile.mkdtemp(prefix="olverif-c16-", dir="/tmp")
    try:
        if isinstance(seed, tuple):   # ("fixed", shard, nshards) or ("host", host, shard, nshards)
            cases = fixed_cases() if seed[0] == "fixed" else host_cases(seed[1])
            if seed[0] == "host":
                seed = ("host", seed[2], seed[3])
            for case in cases[seed[1]::seed[2]]:
                part["evaluations"] += 1
                diffs, argv = check_case(case, workdir)
                inv = is_really_invalid(case)
                part["classes"][("host-%s:" % case["host"] if case.get("host") else "fixed:") + (case["invalid"][0] if inv else "valid")] += 1
                part["nontrivial"].add(key_hash("fixed", case.get("host"), case["prog"], case["out"], case["opts"], case["invalid"], case["order"], case["pos"], case["dep"]))
                if diffs and len(part["violations"]) < 3:
                    part["violations"].append({"payload": {"kind": "cli", "case": case}, "diffs": diffs,
                                               "what": "command line %s" % ("accepts/acts on an invalid option list" if inv else "result differs from the API")})
            return part

        def body(case):
            part["evaluations"] += 1
            diffs, argv = check_case(case, workdir)
            inv = is_really_invalid(case)
            part["classes"]["invalid:" + case["invalid"][0] if inv else "valid:%d-opts" % len(case["opts"])] += 1
            part["classes"]["out:" + case["out"]] += 1
            if inv or case["opts"] or case["dep"]:
                part["nontrivial"].add(key_hash(case["prog"], case["order"], case["out"], tuple(map(tuple, case["opts"])), case["dep"], case["invalid"]))
            if len(part["samples"]) < 2 and (inv or len(case["opts"]) > 1):
                part["samples"].append({"program": case["prog"], "argv": [a if not a.startswith("/tmp") else os.path.basename(a) for a in argv[1:]],
                                        "expect": "rejected, output untouched" if inv else "bytes == API result"})
            if diffs:
                return {"payload": {"kind": "cli", "case": case}, "diffs": diffs,
                        "what": "command line %s" % ("accepts/acts on an invalid option list" if inv else "result differs from the API")}
            return None

        calls, v = hyp.search(case_strategy(names), body, seed, n, shrink_calls=60)
        if v:
            part["violations"].append(v)
    finally:
        shutil.rmtree(workdir, ignore_errors=True)
    return part


def run(report):
    quick = report.tier == "quick"
    report.rule = RULE
    names = sorted(programs())
    per = 40 if quick else 600
    items = [(("fixed", i, env.NPROC), 0, names) for i in range(env.NPROC)]
    items += [(env.sub_seed(report.seed, "C16", i), per, names) for i in range(env.NPROC)]
    from .. import hosts as _hosts
    others = _hosts.available_other_hosts()
    per_host = max(1, env.NPROC // max(1, len(others)))
    items += [(("host", h, j, per_host), 0, names) for h in others for j in range(per_host)]
    report.extra["other_hosts"] = others
    report.extra["fixed_matrix_cases"] = len(fixed_cases())
    for part in env.pmap(_shard, items):
        report.absorb(part)
    report.assumptions += [
        "the subprocess runs with PYTHONUTF8=1 so stdout encoding is not an environment accident",
        "the expected text is the in-process library result for the file decoded exactly as the "
        "CLI decodes it (utf8, universal newlines), compared modulo __ol_ suffixes",
    ]


def replay(payload):
    if payload.get("kind") != "cli":
        raise env.HarnessError("unknown replay payload kind %r" % payload.get("kind"))
    case = payload["case"]
    case["opts"] = [tuple(x) for x in case["opts"]]
    if case.get("invalid") is not None:
        case["invalid"] = tuple(case["invalid"])
    workdir = tempfile.mkdtemp(prefix="olverif-c16-", dir="/tmp")
    try:
        diffs, argv = check_case(case, workdir)
    finally:
        shutil.rmtree(workdir, ignore_errors=True)
    return diffs
