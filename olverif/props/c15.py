"""C15 - the generated expression runs identically on every Python 3.8+ runtime.

Domain   G-PROG programs whose own syntax is valid on 3.8 (checked by the 3.8 worker), pool
         programs and repository scripts x 8 configurations x host interpreter {3.10..3.13} x
         runtime interpreter {3.8..3.13}; outputs de-duplicated by text before evaluation.
Oracle   on each runtime the output compiles in eval mode and its stdout equals the stdout of the
         SOURCE run on that same runtime.
"""
from .. import env, hyp, interp
from ..gen import pool, prog
from ..runner import new_part, key_hash, open_switches

RULE = ("programs are converted by persistent worker processes under every host interpreter found "
        "(3.10-3.13) and every configuration; each distinct output text is evaluated by worker "
        "processes under every runtime found (3.8-3.13) and must print what the source prints on that "
        "runtime. Programs: Hypothesis-drawn G-PROG programs (dropped when the 3.8 worker cannot compile "
        "the source), the pool and the repository's scripts. Non-trivial: host != runtime and the "
        "program has a version-sensitive construct (f-string, walrus, positional-only parameter, starred "
        "target, comprehension in a class body, lambda default); distinct by (output text, runtime) - one "
        "evaluation covers every (host, configuration) that produced that text (host_config_runtime_cells).")

SENSITIVE = {"f-string", "walrus", "posonly", "starred", "lambda-default", "class", "comprehension", "version-sensitive"}


def cell_switches(host, cfg, switches):
    """exclusion switches of open findings apply per (host, unparser) cell"""
    out = set()
    hv = tuple(int(x) for x in host.split("."))
    if "fstring-field-string-literal" in switches and hv >= (3, 12) and cfg[0] == "ast.unparse":
        out.add("fstring-field-string-literal")
    if "oneliner-fstring-field-escape" in switches and cfg[0] == "oneliner":
        # expr_unparse of a 3.12+ host writes the escape into the field (invalid before 3.12): that
        # cell is skipped. On older hosts it REFUSES the same program, which is the harmless side
        # of the same finding: the refusal is tolerated there, but a returned text is still checked
        out.add("field-literal-needs-escape" if hv >= (3, 12) else "field-literal-refusal-tolerated")
    if "ast-unparse-host-syntax" in switches and cfg[0] == "ast.unparse":
        out.add("walrus-index-or-set")            # ast.unparse of 3.10+ drops the parentheses
        if hv >= (3, 11):
            out.add("star-in-index")              # ast.unparse of 3.11+ drops the parentheses
    if "fstring-literal-needs-escape" in switches and hv < (3, 12) and cfg[0] == "oneliner":
        out.add("fstring-literal-needs-escape")
    return out


def has_field_string_literal(src):
    """structural predicate of F31: an f-string field holds a string literal, or a name that the
    lowering may turn into a dictionary subscript with a string key (captured variables, class
    members, declared globals): any name inside a def or class body"""
    import ast
    tree = ast.parse(src)
    inside = set()
    for n in ast.walk(tree):
        if isinstance(n, (ast.FunctionDef, ast.ClassDef, ast.Lambda)):
            for m in ast.walk(n):
                inside.add(id(m))
    for n in ast.walk(tree):
        if isinstance(n, ast.FormattedValue):
            for m in ast.walk(n):
                if isinstance(m, ast.Constant) and isinstance(m.value, (str, bytes)) and m is not n:
                    if not isinstance(getattr(n, "format_spec", None), ast.JoinedStr) or m not in n.format_spec.values:
                        return True
                if isinstance(m, ast.Name) and id(m) in inside:
                    return True
    return False


def has_walrus_index_or_set(src):
    import ast
    for n in ast.walk(ast.parse(src)):
        if isinstance(n, ast.Subscript) and isinstance(n.slice, ast.NamedExpr):
            return True
        if isinstance(n, ast.Set) and any(isinstance(e, ast.NamedExpr) for e in n.elts):
            return True
        if isinstance(n, ast.SetComp) and isinstance(n.elt, ast.NamedExpr):
            return True
    return False


def _needs_escape(c):
    """mirror of the unparser's rule on the unchanged tree: quotes and the backslash, everything
    up to U+00FF that is not printable, lone surrogates; every other character is written raw"""
    o = ord(c)
    return c in "\\'\"" or (o <= 255 and not (32 <= o < 127 or (o > 127 and c.isprintable()))) or 0xD800 <= o <= 0xDFFF


def has_field_literal_needing_escape(src, nested_counts=True):
    """nested_counts: a nested f-string counts (a 3.12+ host re-uses the outer quote from depth 2 on);
    hosts before 3.12 find four kinds of quotes since fix 7395216, there only real escapes count"""
    import ast
    for n in ast.walk(ast.parse(src)):
        if isinstance(n, ast.FormattedValue):
            for m in ast.walk(n.value):
                if isinstance(m, ast.Constant) and isinstance(m.value, str) and any(_needs_escape(c) for c in m.value):
                    return True
                if isinstance(m, ast.Constant) and isinstance(m.value, bytes):
                    return True
                if isinstance(m, ast.JoinedStr) and nested_counts:
                    return True      # nested f-string: a 3.12+ host re-uses the outer quote at depth 2
    return False


def has_star_index(src):
    import ast
    for n in ast.walk(ast.parse(src)):
        if isinstance(n, ast.Subscript) and isinstance(n.slice, ast.Tuple) and any(
                isinstance(e, ast.Starred) for e in n.slice.elts):
            return True
    return False


def has_fstring_escape_literal(src):
    import ast
    for n in ast.walk(ast.parse(src)):
        if isinstance(n, ast.JoinedStr):
            for v in n.values:
                if isinstance(v, ast.Constant) and isinstance(v.value, str):
                    if any(ord(c) > 126 or ord(c) < 32 or c in "\\'\"" for c in v.value):
                        return True
    return False


def check_program(part, pool_, source, tags, switches, label, skip_runtimes=()):
    hosts, runtimes = pool_.hosts(), [r for r in pool_.runtimes() if r not in skip_runtimes]
    r0 = pool_.get(runtimes[0]).call({"op": "compile", "text": source, "mode": "exec"})
    if not r0.get("ok"):
        part["discarded"]["source-not-valid-on-%s" % runtimes[0]] += 1
        return None
    want = {}
    want_log = {}
    for rt in runtimes:
        o = pool_.get(rt).call({"op": "run", "text": source, "mode": "exec", "want_log": True})
        if o.get("worker_error"):
            raise env.HarnessError("runtime worker %s: %s" % (rt, o.get("err")))
        if not o.get("ok"):
            part["discarded"]["original-raises-on-%s" % rt] += 1
            return None
        want[rt] = o["stdout"]
        want_log[rt] = o.get("log")
    field_lit = None
    esc_lit = None
    preds = {}
    texts = {}
    refused, accepted = {}, {}
    for host in hosts:
        for cfg in env.ALL_CFGS:
            sw = cell_switches(host, cfg, switches)
            if "fstring-field-string-literal" in sw:
                if field_lit is None:
                    field_lit = has_field_string_literal(source)
                if field_lit:
                    part["exclusions"]["fstring-field-string-literal"] = part["exclusions"].get("fstring-field-string-literal", 0) + 1
                    continue
            skip = None
            for name, pred in (("walrus-index-or-set", has_walrus_index_or_set), ("star-in-index", has_star_index),
                               ("field-literal-needs-escape", has_field_literal_needing_escape)):
                if name in sw:
                    if name not in preds:
                        preds[name] = pred(source)
                    if preds[name]:
                        skip = name
            if skip:
                part["exclusions"]["host-syntax:" + skip] = part["exclusions"].get("host-syntax:" + skip, 0) + 1
                if skip == "field-literal-needs-escape":
                    # the TEXT of this cell is host-specific (open finding), but whether the host converts the
                    # program at all still tells whether a refusal elsewhere is host-specific
                    c0 = pool_.get(host).call({"op": "convert", "repo": env.REPO, "src": source, "cfg": list(cfg), "seed": 0})
                    if c0.get("ok"):
                        accepted.setdefault(tuple(cfg), []).append(host)
                continue
            if "fstring-literal-needs-escape" in sw:
                if esc_lit is None:
                    esc_lit = has_fstring_escape_literal(source)
                if esc_lit:
                    part["exclusions"]["fstring-literal-needs-escape"] = part["exclusions"].get("fstring-literal-needs-escape", 0) + 1
                    continue
            c = pool_.get(host).call({"op": "convert", "repo": env.REPO, "src": source, "cfg": list(cfg), "seed": 0})
            if c.get("worker_error"):
                raise env.HarnessError("host worker %s: %s" % (host, c.get("err")))
            part["extra"]["conversions"] = part["extra"].get("conversions", 0) + 1
            if not c.get("ok"):
                # no text was produced: C15 is about the text the converter produces. Whether a
                # supported program may be refused on a host is decided by the host dimension
                # of C01/C05/C06/C07/C13 (same oracle, other interpreter).
                part["classes"]["rejected-on-host:" + host] += 1
                part["extra"]["rejections"] = part["extra"].get("rejections", 0) + 1
                if "field-literal-refusal-tolerated" in sw:
                    if "field-literal-real-escape" not in preds:
                        preds["field-literal-real-escape"] = has_field_literal_needing_escape(source, nested_counts=False)
                    if preds["field-literal-real-escape"]:
                        continue
                refused.setdefault(tuple(cfg), []).append((host, c.get("err")))
                continue
            accepted.setdefault(tuple(cfg), []).append(host)
            texts.setdefault(c["text"], []).append((host, cfg))
    # a program that one host converts and another refuses under the same options is refused for
    # a host-specific reason, although its own syntax is valid everywhere
    for cfg, hosts_err in refused.items():
        if accepted.get(cfg):
            host, err = hosts_err[0]
            return {"payload": {"kind": "xrt", "src": source, "host": host, "cfg": list(cfg), "runtime": None},
                    "diffs": ["conversion on host %s raised %s, while host %s converts the same program" % (
                        host, err, accepted[cfg][0])],
                    "what": "%s: refused on host %s only (%s)" % (label, host, env.cfg_name(cfg))}
    for text, origins in texts.items():
        for rt in runtimes:
            e = pool_.get(rt).call({"op": "run", "text": text, "mode": "eval", "want_log": True})
            if e.get("worker_error"):
                raise env.HarnessError("runtime worker %s: %s" % (rt, e.get("err")))
            part["evaluations"] += 1
            part["classes"]["runtime:" + rt] += 1
            if (SENSITIVE & set(tags)) and any(host != rt for host, cfg in origins):
                part["nontrivial"].add(key_hash(text, rt))
            part["extra"]["host_config_runtime_cells"] = part["extra"].get("host_config_runtime_cells", 0) + len(origins)
            host, cfg = origins[0]
            d = []
            if not e.get("ok"):
                d = ["output of host %s does not run on runtime %s: %s %s" % (host, rt, e.get("err"), e.get("errmsg"))]
            elif e["stdout"] != want[rt]:
                d = ["stdout on runtime %s differs from the source's: %r vs %r" % (rt, e["stdout"][:200], want[rt][:200])]
            elif e.get("log") != want_log[rt]:
                a, b = want_log[rt] or [], e.get("log") or []
                i = next((j for j in range(min(len(a), len(b))) if a[j] != b[j]), min(len(a), len(b)))
                d = ["probe trace on runtime %s differs from the source's at index %d: %r vs %r" % (
                    rt, i, a[i] if i < len(a) else None, b[i] if i < len(b) else None)]
            if d:
                return {"payload": {"kind": "xrt", "src": source, "host": host, "cfg": list(cfg), "runtime": rt},
                        "diffs": d, "what": "%s: output converted on %s (%s) misbehaves on runtime %s" % (
                            label, host, env.cfg_name(cfg), rt)}
    return None


# ------------------------------------------------------------------ depth family

DEPTH_KINDS = ("def", "class", "if", "mixed")
DEPTHS_QUICK = (8, 16, 28)
DEPTHS_THOROUGH = (4, 8, 12, 16, 20, 24, 28, 34, 40)
# F53: the text for 24 or more nested def statements (32 classes; about 46 with unparser=oneliner)
# overflows the parser stack of Python 3.8 (MemoryError), although 3.8 compiles the source: above
# this depth runtime 3.8 is left out for def/class nesting while the finding is open
DEPTH_38_LIMIT = 16


def depth_program(kind, n):
    """n statically nested blocks (valid on 3.8: at most 20 of them are loops)"""
    lines = ["t = [0]", "w = [0]"]
    kinds = []
    for i in range(n):
        k = kind if kind != "mixed" else ("def", "if", "class", "for", "def", "while")[i % 6]
        if k in ("for", "while") and sum(1 for x in kinds if x in ("for", "while", "if")) >= 18:
            k = "def"
        kinds.append(k)
        ind = "    " * i
        if k == "def":
            lines.append("%sdef f%d():" % (ind, i))
        elif k == "class":
            lines.append("%sclass K%d:" % (ind, i))
        elif k == "if":
            lines.append("%sif t[0] == 0:" % ind)
        elif k == "for":
            lines.append("%sfor e%d in range(2):" % (ind, i))
        else:
            lines.append("%swhile w[0] < %d:" % (ind, i + 1))
    lines.append("    " * n + "t.append(%d)" % n)
    # leave the blocks again: call each function where it was defined
    for i in range(n - 1, -1, -1):
        ind = "    " * i
        if kinds[i] == "def":
            lines.append("%sf%d()" % (ind, i))
        elif kinds[i] == "while":
            lines.append("%sw[0] += 1" % ("    " * (i + 1)))
    lines.append("print(t)")
    return "\n".join(lines) + "\n"


def _depth_shard(item):
    cases, switches = item
    part = new_part()
    pl = interp.Pool()
    try:
        for kind, n in cases:
            src = depth_program(kind, n)
            skip = ()
            if "deep-nesting-on-3.8-parser" in switches and kind in ("def", "class", "mixed") and n > DEPTH_38_LIMIT:
                skip = ("3.8",)
                part["exclusions"]["deep-nesting-on-3.8-parser"] = part["exclusions"].get("deep-nesting-on-3.8-parser", 0) + 1
            part["classes"]["depth:%s" % kind] += 1
            v = check_program(part, pl, src, SENSITIVE, switches, "%d nested %s blocks" % (n, kind), skip_runtimes=skip)
            if v and len(part["violations"]) < 3:
                part["violations"].append(v)
    finally:
        pl.close()
    return part


def _shard(item):
    kind, arg, switches = item
    if kind == "depth":
        return _depth_shard((arg, switches))
    part = new_part()
    pl = interp.Pool()
    try:
        part["extra"]["interpreters_found"] = sorted(pl.found)
        if kind == "corpus":
            for name, src in arg:
                before = sum(part["discarded"].values())
                v = check_program(part, pl, src, SENSITIVE, switches, "corpus program " + name)
                if sum(part["discarded"].values()) != before:
                    if name.startswith("vs_"):
                        raise env.HarnessError("version-sensitive pool program %s is not valid / raises on some runtime" % name)
                    part["extra"].setdefault("corpus_programs_outside_the_domain", []).append(name)
                if v and len(part["violations"]) < 3:
                    part["violations"].append(v)
        else:
            seed, n = arg

            def body(p):
                if len(part["samples"]) < 1 and len(p.source) < 700:
                    part["samples"].append(p.source)
                return check_program(part, pl, p.source, p.tags, switches, "generated program")

            # F31's switches are honoured per (host, unparser) cell by predicates on the source,
            # not by the generator: the other cells must see those shapes
            gen_sw = [x for x in switches if x not in ("fstring-field-string-literal", "ast-unparse-host-syntax",
                                                       "oneliner-fstring-field-escape")]
            calls, v = hyp.search(prog.program_strategy(gen_sw, py38=True, max_stmts=16), body, seed, n,
                                  key=lambda p: p.source, shrink_calls=25, shrink_seconds=60)
            if v:
                part["violations"].append(v)
    finally:
        pl.close()
    return part


def run(report):
    quick = report.tier == "quick"
    report.rule = RULE
    found = interp.discover()
    hosts = [m for m in found if tuple(int(x) for x in m.split(".")) >= interp.HOST_MIN]
    report.extra["interpreters_found"] = sorted(found)
    report.extra["interpreters_missing"] = [m for m in interp.CANDIDATES if m not in found]
    if len(found) < 2 or not hosts:
        raise env.HarnessError("C15 needs at least two runtimes and one host interpreter; found %r" % sorted(found))
    switches = sorted(open_switches("C15"))
    for s in switches:
        report.exclusions.setdefault(s, 0)
    progs = sorted(pool.all_programs().items()) + sorted(pool.VERSION_SENSITIVE.items())
    nsh = min(env.NPROC, 12)
    items = [("corpus", progs[i::4], switches) for i in range(4)]
    # a seeded stride of the G-NEST interaction programs (all valid on 3.8)
    from ..gen import nest
    ncases = nest.catalogue()
    stride = 97 if quick else 11
    nprogs = []
    for k in range(report.seed % stride, len(ncases), stride):
        src = nest.build_any(ncases[k])
        if src is not None:
            nprogs.append(("interaction " + nest.label(ncases[k]), src))
    items += [("corpus", nprogs[i::4], switches) for i in range(4)]
    report.extra["interaction_programs"] = len(nprogs)
    depth_cases = [(k, n) for k in DEPTH_KINDS for n in (DEPTHS_QUICK if quick else DEPTHS_THOROUGH)]
    items += [("depth", depth_cases[i::4], switches) for i in range(4)]
    per = 20 if quick else 300
    items += [("gen", (env.sub_seed(report.seed, "C15", i), per), switches) for i in range(nsh)]
    for part in env.pmap(_shard, items, nproc=nsh):
        report.absorb(part)
    report.assumptions += ["the interpreters baked into the image under /root/.pyenv/versions are the runtimes; "
                           "3.14 is not available offline",
                           "per runtime, stdout and the probe trace of the output are compared with those of the source on the same runtime"]


def replay(payload):
    if payload.get("kind") != "xrt":
        raise env.HarnessError("unknown replay payload kind %r" % payload.get("kind"))
    pl = interp.Pool()
    try:
        host, cfg, rt = payload["host"], payload["cfg"], payload.get("runtime")
        c = pl.get(host).call({"op": "convert", "repo": env.REPO, "src": payload["src"], "cfg": cfg, "seed": 0})
        if not c.get("ok"):
            return ["conversion on host %s raised %s" % (host, c.get("err"))]
        out = []
        for r in ([rt] if rt else pl.runtimes()):
            o = pl.get(r).call({"op": "run", "text": payload["src"], "mode": "exec", "want_log": True})
            e = pl.get(r).call({"op": "run", "text": c["text"], "mode": "eval", "want_log": True})
            if not o.get("ok"):
                return ["witness is outside the domain: the source raises on runtime %s" % r]
            if not e.get("ok"):
                out.append("output of host %s does not run on runtime %s: %s %s" % (host, r, e.get("err"), e.get("errmsg")))
            elif e["stdout"] != o["stdout"]:
                out.append("stdout on runtime %s differs" % r)
            elif e.get("log") != o.get("log"):
                out.append("probe trace on runtime %s differs" % r)
        return out
    finally:
        pl.close()
