"""C06 - every name resolves to the same variable after lowering of scopes.

Domain   G-SCOPE: scope trees (module, function, class, lambda, comprehension) with one binding
         role per scope for a tracked name x, enumerated smallest-first (chains and siblings),
         Hypothesis-drawn deeper trees with a second independently tracked name y.
         Statically illegal programs are dropped by a compile test; programs whose original
         raises (read before binding) are dropped and counted.
Oracle   equality of the value log (every write uses a fresh integer, so the log identifies
         which variable was read) and of the final globals.
"""
import random

from .. import env, hyp
from ..gen import scope
from ..kit import run_code
from ..oracle import check_program, program_payload, replay_program, reduce_violation
from ..runner import new_part, key_hash, open_switches

RULE = ("scope trees rooted at the module; each inner scope is a function, class, lambda or "
        "comprehension with one role for the tracked name from the catalogue (%d module / %d function "
        "/ %d class / %d lambda / %d comprehension roles: not mentioned, read, assign, augmented, "
        "walrus, parameter kinds, loop/comprehension target, destructuring, def/class/import binding, "
        "global/nonlocal + assign/read/augmented, captured-and-rebound variants ...), with and "
        "without an initial module binding. Enumerated: all trees with one inner scope, and (quick: "
        "a seeded fraction of / thorough: all) trees with two inner scopes as chain or siblings; "
        "sampled: chains of three; Hypothesis: trees up to depth 4 with <= 2 children per scope and a "
        "second tracked name; two-name chains: pairs of statically legal single-name chains of 2-3 "
        "functions over 7 roles rendered into the SAME scopes (two captured-variable owners on one "
        "chain; quick: a tenth, thorough: all); one-scope trees, a fraction of two-scope chains and the class "
        "towers once more with 12 distinguishable FALSY values written everywhere. Each valid program runs under one configuration by rotation and all 8 "
        "on a tenth. Non-trivial: >= 2 scopes touch x and one of them is nested in a scope that binds "
        "or declares x; distinct by (tree, initial binding)."
        % tuple(len(scope.ROLES[k]) for k in ("module", "func", "class", "lambda", "comp")))

BINDING = {"assign", "assign_noread", "assign_nl", "aug", "walrus", "for", "def", "classbind", "import",
           "fromimport", "assign_read_before", "destructure", "withcomp", "global_assign", "global_read",
           "global_aug", "nonlocal_assign", "nonlocal_read", "nonlocal_aug", "param", "param_nl",
           "param_default", "kwonly", "vararg", "walrus_nonlocal", "for_nonlocal", "target", "target_tuple",
           "param_default_same", "lam_vararg", "lam_kwarg", "lam_kwonly", "lam_posonly", "param_same", "kwonly_same",
           "lam_kwonly_same", "walrus_in_comp", "cond_untaken", "cond_taken", "loop_zero"}


def nontrivial(tree):
    touching = 0
    nested_under_binding = False
    for node, path in scope.walk(tree):
        if node[1] != "none":
            touching += 1
            if any(p[1] in BINDING for p in path):
                nested_under_binding = True
    return touching >= 2 and nested_under_binding


READS = {"read", "param_default_same", "iter_read", "cond_read", "walrus"}


def cpython_inlining_bug_shape(tree):
    """CPython 3.12/3.13 mis-handle a comprehension whose target name is also read by a sibling
    lambda/comprehension of the same FUNCTION scope (UnboundLocalError / NameError in plain Python,
    e.g. `lambda: [[y for y in [1]], [y for t in [2]]]` on 3.12.1). A class body is not a function
    scope, but its lowered form is hosted in a lambda, so such class bodies would diverge because of
    the interpreter bug, not because of the translation. The shape is outside the domain
    (DESIGN 2.8 rule 7); it is a soundness filter, not a known finding."""
    for node, path in scope.walk(tree):
        if node[0] != "class":
            continue
        # the lowered class body is a lambda: a comprehension directly in it is inlined into that
        # lambda, and ANY other scope below the class (nested classes included: their loaders are
        # nested lambdas) that mentions the name may hit the interpreter bug
        for t in node[2]:
            if t[0] != "comp" or t[1] not in ("target", "target_tuple"):
                continue
            for c in node[2]:
                if c is not t and any(sub[1] != "none" for sub, _ in scope.walk(c)):
                    return True
    # second form (seen in the thorough tier, ORIGINAL misbehaves on 3.12.1): a comprehension variable
    # that is captured by a scope nested in the comprehension, inside a function (or class) that
    # also uses the same name itself: after the comprehension the function reads the leaked
    # iteration value instead of its own variable
    for node, path in scope.walk(tree):
        if node[0] not in ("func", "class", "lambda", "comp"):
            continue
        for t in node[2]:
            if t[0] != "comp" or t[1] not in ("target", "target_tuple"):
                continue
            # captured by a LAMBDA below the comprehension (comprehensions nested in it are inlined
            # into the same frame and behave in CPython: calibrated on 3.11 / 3.12 / 3.13)
            captured = any(sub is not t and sub[0] != "comp" and any(s2[1] != "none" for s2, _ in scope.walk(sub))
                           for sub, _ in scope.walk(t))
            if captured and (node[1] != "none" or any(
                    c is not t and any(sub[1] != "none" for sub, _ in scope.walk(c)) for c in node[2])):
                return True
    # third form (thorough tier, 3.12.1 and 3.13.0: the ORIGINAL reads a cell object or raises
    # NameError): a comprehension binding the name nested INSIDE another comprehension (both are
    # inlined into the function's frame), while a lambda/def/class anywhere else in that function
    # captures the same name: `def f3(): [[(lambda: x)(), [x for x in [7]]] for t in [8]]`
    def comps_below(n, depth):
        for c in n[2]:
            if c[0] == "comp":
                yield c, depth + 1
                for r in comps_below(c, depth + 1):
                    yield r
    for node, path in scope.walk(tree):
        if node[0] == "comp":
            continue
        for t, depth in comps_below(node, 0):
            if depth < 2 or t[1] not in ("target", "target_tuple"):
                continue
            inside_t = set(id(sub) for sub, _ in scope.walk(t))
            for sub, _ in scope.walk(node):
                if sub is node or id(sub) in inside_t or sub[0] == "comp":
                    continue
                if any(s2[1] != "none" for s2, _ in scope.walk(sub)):
                    return True
    return False


def check_tree(part, tree, init, idx, second=None, overlay=None, falsy=False):
    if cpython_inlining_bug_shape(tree) or (second is not None and cpython_inlining_bug_shape(second)):
        part["discarded"]["cpython-comprehension-inlining-bug-shape"] += 1
        return None
    if overlay is not None:
        src = scope.render2(tree, overlay, init)
    else:
        src = scope.render(tree, init, second, falsy)
    try:
        compile(src, "<scope>", "exec")
    except SyntaxError:
        part["discarded"]["statically-illegal"] += 1
        return None
    o = run_code(src, "exec")
    if not o["ok"]:
        part["discarded"]["original-raises:" + str(o["err"])] += 1
        return None
    part["evaluations"] += 1
    for node, path in scope.walk(tree):
        part["classes"]["%s:%s" % (node[0], node[1])] += 1
    if falsy:
        part["classes"]["falsy-values"] += 1
    if overlay is not None:
        part["classes"]["two-names-in-one-tree"] += 1
    if nontrivial(tree):
        part["nontrivial"].add(key_hash(tree, init, second, overlay, falsy))
    cfgs = env.ALL_CFGS if idx % 10 == 0 else [env.ALL_CFGS[idx % 8]]
    status, failures, _ = check_program(src, cfgs, orig=o)
    part["extra"]["config_runs"] = part["extra"].get("config_runs", 0) + len(cfgs)
    if status == "fail":
        cfg, diffs, text = failures[0]
        return {"payload": program_payload(src, cfg), "diffs": diffs,
                "what": "name resolution differs (%s)" % env.cfg_name(cfg)}
    return None


def _enum_shard(item):
    family, idx, nshards, fraction, seed = item
    part = new_part()
    falsy = family.endswith("-falsy")
    family = family.replace("-falsy", "")
    gen = {"chain1": scope.trees_chain1, "chain2": scope.trees_chain2, "sib2": scope.trees_sib2,
           "chain3": scope.trees_chain3, "chain4focus": scope.trees_chain4_focus,
           "classtowers": scope.trees_class_towers, "twonames": scope.trees_two_names}[family]
    rng = random.Random(seed)
    for i, tree in enumerate(gen()):
        keep = fraction >= 1.0 or rng.random() < fraction   # same decisions in every shard
        if i % nshards != idx or not keep:
            continue
        overlay = None
        if family == "twonames":
            tree, overlay = tree
        for init in (True, False):
            v = check_tree(part, tree, init, i, overlay=overlay, falsy=falsy)
            if v and len(part["violations"]) < 3:
                part["violations"].append(v)
    if idx == 0 and family == "chain2" and not falsy:
        part["samples"].append(scope.render(("module", "assign", (("func", "assign_nl", (("comp", "target", ()),)),)), True))
    return part


def _drawn_shard(item):
    seed, n = item
    part = new_part()
    from hypothesis import strategies as st
    strat = st.tuples(scope.tree_strategy(4, 2), st.booleans(), st.one_of(st.none(), scope.tree_strategy(3, 2)))
    counter = [0]

    def body(case):
        tree, init, second = case
        counter[0] += 1
        return check_tree(part, tree, init, counter[0], second)

    calls, v = hyp.search(strat, body, seed, n)
    if v:
        part["violations"].append(reduce_violation(v))
    return part


import re as _re
_SCOPE_LIKE = _re.compile(r"\b(f|K)(\d+)\b")
_SCOPE_LIKE_NAMES = ("listcomp", "genexpr", "setcomp", "dictcomp", "lambda_", "top")


def run(report):
    quick = report.tier == "quick"
    report.rule = RULE
    switches = sorted(open_switches('C06'))
    for s in switches:
        report.exclusions.setdefault(s, 0)
    seed = env.sub_seed(report.seed, "C06", "fraction")
    ns = env.NPROC * 2
    items = [(_enum_shard, ("chain1", i, ns, 1.0, seed)) for i in range(ns)]
    frac2 = 0.12 if quick else 1.0
    items += [(_enum_shard, ("chain2", i, ns, frac2, seed)) for i in range(ns)]
    items += [(_enum_shard, ("sib2", i, ns, frac2, seed + 1)) for i in range(ns)]
    items += [(_enum_shard, ("chain3", i, ns, 0.004 if quick else 0.08, seed + 2)) for i in range(ns)]
    items += [(_enum_shard, ("chain4focus", i, ns, 1.0, seed + 3)) for i in range(ns)]
    items += [(_enum_shard, ("classtowers", i, 4, 1.0, seed + 4)) for i in range(4)]
    items += [(_enum_shard, ("twonames", i, ns, 0.1 if quick else 1.0, seed + 5)) for i in range(ns)]
    # the same trees with FALSY values written everywhere (augmenting roles raise in the original and drop out)
    items += [(_enum_shard, ("chain1-falsy", i, ns, 1.0, seed + 6)) for i in range(ns)]
    items += [(_enum_shard, ("chain2-falsy", i, ns, 0.04 if quick else 0.5, seed + 7)) for i in range(ns)]
    items += [(_enum_shard, ("classtowers-falsy", i, 4, 1.0, seed + 8)) for i in range(4)]
    items += [(_drawn_shard, (env.sub_seed(report.seed, "C06", i), 120 if quick else 5000)) for i in range(env.NPROC)]
    # host dimension: the symbol-table walk has version-specific paths
    from .. import hosts
    others = hosts.available_other_hosts()
    cases = []
    rng = random.Random(seed + 7)
    for fam, frac in (("chain1", 1.0), ("chain2", 0.02 if quick else 0.2), ("sib2", 0.01 if quick else 0.1)):
        gen = {"chain1": scope.trees_chain1, "chain2": scope.trees_chain2, "sib2": scope.trees_sib2}[fam]
        for i, tree in enumerate(gen()):
            if frac < 1.0 and rng.random() >= frac:
                continue
            if cpython_inlining_bug_shape(tree):
                continue
            for init in (True, False):
                src = scope.render(tree, init)
                try:
                    compile(src, "<scope>", "exec")
                except SyntaxError:
                    continue
                cases.append((src, [env.ALL_CFGS[(i + init) % 8]]))
                if i % 3 == 0:
                    # the same program with its functions and classes named like CPython's implicit scopes
                    # (hosts before 3.12 recognise those scopes by name)
                    ren = _SCOPE_LIKE.sub(lambda m: _SCOPE_LIKE_NAMES[int(m.group(2)) % len(_SCOPE_LIKE_NAMES)], src)
                    if ren != src:
                        cases.append((ren, [env.ALL_CFGS[(i + init + 3) % 8]]))
    nchunk = 5
    for h in others:
        for k in range(nchunk):
            items.append((hosts.host_shard, (h, cases[k::nchunk], {}, "name resolution differs")))
    report.extra["other_hosts"] = others
    report.extra["host_cases_per_host"] = len(cases)
    for part in env.pmap(_call, items):
        report.absorb(part)
    report.exhaustive = True
    report.notes.append("exhaustive:true refers to trees with one inner scope (both tiers) and, in the thorough "
                        "tier, to all trees with two inner scopes; the rest is sampled")
    report.extra["fraction_of_two_scope_trees"] = frac2
    report.assumptions += ["the log of fresh integers identifies which variable each read saw",
                           "programs whose original raises (read before binding) are outside the domain"]


def _call(item):
    f, arg = item
    return f(arg)


def replay(payload):
    return replay_program(payload)
