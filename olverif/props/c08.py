"""C08 - unsupported constructs are rejected, never silently dropped or mistranslated.

Domain   base programs (one fixed rich base + Hypothesis-drawn G-PROG programs) x every
         statement position x every unsupported statement kind; expression positions x
         {yield, yield e, yield from, await, async comprehension}; illegally placed
         break/continue/return at every position where CPython refuses them; a second star in
         every tuple/list target.
Oracle   convert_code_string raises an Exception under every configuration. Nothing is executed.
         Effect-survival stage: supported one-expression statements with an observable effect;
         trace and final exception type of the converted program equal the source's.
"""
import ast
import copy

from .. import env, hyp
from ..gen import prog
from ..runner import new_part, key_hash, open_switches

RULE = ("for each base program the injector enumerates every index of every body/orelse list at "
        "every depth (including positions after an interrupt) and inserts one statement of each "
        "unsupported kind (try/except, try/finally, raise, with, assert, del, match, type alias, "
        "star import, async def/for/with), wraps expression nodes in yield / yield from / await / "
        "an async comprehension, places break/continue/return wherever CPython refuses them, and "
        "adds a second star to every tuple/list target. Base programs: one fixed base with every "
        "placement (module, function, class, def/class in a loop, loop else, nested expression) "
        "plus Hypothesis-drawn generated programs. Non-trivial: injection at nesting depth >= 1 "
        "or expression-level; distinct by (construct, position path, base). Last sentence of the "
        "property: 29 expression statements that look inert but have a run-time effect (logged "
        "attribute/item reads, probe calls in every expression form, the exception CPython raises for "
        "an undefined name, a missing attribute or key, a division by zero) x 14 placements x 8 "
        "configurations: the converted program must show the same trace and end with the same "
        "exception type (a refusal is allowed).")

BASE = '''
import math
total = 0
def helper(a, b=2, *rest, key=None):
    acc = a + b
    for r in rest:
        if r < 0:
            continue
        acc += r
    else:
        acc += 1
    while acc > 100:
        acc -= 10
        if acc % 7 == 0:
            break
    if key:
        return key(acc)
    return acc
class Shape:
    sides = 0
    def __init__(self, n):
        self.n = n
    def area(self):
        f = lambda x, y=1: x * y + self.n
        return f(2)
    for _i in range(2):
        sides += _i
    class Inner:
        tag = 'inner'
for i in range(3):
    def in_loop(v):
        return [v * k for k in range(i)]
    class InLoop:
        x = i
    total += len(in_loop(i))
    if total > 5:
        break
else:
    total = -1
j = 0
while j < 2:
    j += 1
    (p, *q), r = [j, 2, 3], j
def branches(v):
    if v:
        out = 1
    else:
        return -1
    if v > 5:
        out = 5
    elif v > 3:
        out = 3
    else:
        out += 1
        return out
    for w in range(v):
        if w:
            out += w
        else:
            continue
    else:
        return out
    while v:
        v -= 1
        if v == 2:
            out = 2
        else:
            break
    else:
        out -= 1
        return out
    return out
msg = f'{total!r:>{j}}|{helper(1)} {p}{branches(0)}{branches(2)}{branches(4)}'
width: int = total + 1
def annotated(a: int, b: 'str' = 'x', *c: int, d: float = 1.0, **e: int) -> int:
    local: int = a
    other: list
    return local
class WithAnn:
    field: int = 3
    name: str
print(total, helper(1, 2, 3, key=lambda z: z + 1), Shape(3).area(), p, q, r, math.floor(2.5), msg, width, annotated(1))
'''

STMT_KINDS = {
    "try-except": "try:\n    pass\nexcept Exception:\n    pass",
    "try-finally": "try:\n    pass\nfinally:\n    pass",
    "raise": "raise ValueError(1)",
    "with": "with open('f') as fh:\n    pass",
    "assert": "assert True",
    "del": "del total",
    "match": "match total:\n    case 1:\n        pass\n    case _:\n        pass",
    "type-alias": "type Vec = list[int]",
    "star-import": "from math import *",
    "async-def": "async def coro():\n    pass",
    "async-for": "async for z in aiter():\n    pass",
    "async-with": "async with ctx() as c:\n    pass",
    "def-with-yield": "def gen():\n    yield 1",
    "try-star": "try:\n    pass\nexcept* ValueError:\n    pass",
}
EXPR_KINDS = ("yield", "yield-value", "yield-from", "await", "async-comp", "async-genexp")


def _snippet(kind):
    return ast.parse(STMT_KINDS[kind]).body[0]


class Position(object):
    __slots__ = ("lst", "index", "depth", "in_loop", "in_func", "in_class", "dead", "path")

    def __init__(self, lst, index, depth, in_loop, in_func, in_class, dead, path):
        self.lst, self.index, self.depth = lst, index, depth
        self.in_loop, self.in_func, self.in_class, self.dead, self.path = in_loop, in_func, in_class, dead, path


def stmt_positions(tree):
    out = []

    def visit_list(lst, depth, in_loop, in_func, in_class, path):
        dead = False
        for i in range(len(lst) + 1):
            out.append(Position(lst, i, depth, in_loop, in_func, in_class, dead, path + (i,)))
            if i < len(lst):
                s = lst[i]
                visit_stmt(s, depth, in_loop, in_func, in_class, path + (i,))
                if isinstance(s, (ast.Break, ast.Continue, ast.Return)):
                    dead = True

    def visit_stmt(s, depth, in_loop, in_func, in_class, path):
        if isinstance(s, (ast.FunctionDef, ast.AsyncFunctionDef)):
            visit_list(s.body, depth + 1, False, True, False, path + ("def",))
        elif isinstance(s, ast.ClassDef):
            visit_list(s.body, depth + 1, False, False, True, path + ("class",))
        elif isinstance(s, (ast.For, ast.While)):
            visit_list(s.body, depth + 1, True, in_func, in_class, path + ("loop",))
            if s.orelse:
                visit_list(s.orelse, depth + 1, in_loop, in_func, in_class, path + ("loopelse",))
        elif isinstance(s, ast.If):
            visit_list(s.body, depth + 1, in_loop, in_func, in_class, path + ("if",))
            if s.orelse:
                visit_list(s.orelse, depth + 1, in_loop, in_func, in_class, path + ("else",))

    visit_list(tree.body, 0, False, False, False, ())
    return out


def expr_positions(tree):
    """(parent, field, index|None, node, inside_function_or_lambda) for Load-context expressions"""
    out = []

    def rec(node, in_fn, in_fstring):
        for field, value in ast.iter_fields(node):
            vals = value if isinstance(value, list) else [value]
            for idx, v in enumerate(vals):
                if not isinstance(v, ast.AST):
                    continue
                child_fn = in_fn or isinstance(node, (ast.FunctionDef, ast.Lambda))
                # the format_spec of a field is a JoinedStr, not an expression position
                fs = in_fstring or (isinstance(node, ast.FormattedValue) and field == "format_spec")
                ok_parent = not isinstance(node, (ast.arguments, ast.keyword, ast.NamedExpr, ast.comprehension, ast.JoinedStr))
                if isinstance(node, ast.arg):
                    ok_parent = field == "annotation"          # parameter annotations are expressions too
                if isinstance(v, ast.expr) and not isinstance(getattr(v, "ctx", None), (ast.Store, ast.Del)) \
                        and not isinstance(v, (ast.Starred, ast.Slice, ast.JoinedStr, ast.FormattedValue)) \
                        and not fs and field not in ("decorator_list", "bases", "keywords") and ok_parent \
                        and not (isinstance(node, ast.AnnAssign) and field == "target"):
                    out.append((node, field, idx if isinstance(value, list) else None, v, child_fn))
                rec(v, child_fn if not isinstance(v, ast.ClassDef) else False, fs)

    rec(tree, False, False)
    return out


def wrap_expr(kind, node):
    n = copy.deepcopy(node)
    if kind == "yield":
        return ast.Tuple(elts=[ast.Yield(value=None), n], ctx=ast.Load())
    if kind == "yield-value":
        return ast.Yield(value=n)
    if kind == "yield-from":
        return ast.YieldFrom(value=ast.List(elts=[n], ctx=ast.Load()))
    if kind == "await":
        return ast.Await(value=n)
    comp = ast.comprehension(target=ast.Name(id="_z", ctx=ast.Store()),
                             iter=ast.Call(func=ast.Name(id="aiter", ctx=ast.Load()), args=[], keywords=[]),
                             ifs=[], is_async=1)
    if kind == "async-comp":
        return ast.ListComp(elt=n, generators=[comp])
    return ast.Call(func=ast.Name(id="list", ctx=ast.Load()),
                    args=[ast.GeneratorExp(elt=n, generators=[comp])], keywords=[])


def star_targets(tree):
    out = []
    for node in ast.walk(tree):
        tg = []
        if isinstance(node, ast.Assign):
            tg = node.targets
        elif isinstance(node, ast.For):
            tg = [node.target]
        elif isinstance(node, ast.comprehension):
            tg = [node.target]
        for t in tg:
            for sub in ast.walk(t):
                if isinstance(sub, (ast.Tuple, ast.List)) and isinstance(sub.ctx, ast.Store):
                    out.append(sub)
    return out


def _src(tree):
    try:
        return ast.unparse(ast.fix_missing_locations(tree))
    except (ValueError, RecursionError):
        return None


def injections(base_src, expr_stride=1, switches=()):
    """yields (construct, where, nontrivial, source text); the tree is mutated in place and
    restored after every injection"""
    tree = ast.parse(base_src)
    for pos in stmt_positions(tree):
        where = "stmt%s%s" % (pos.path, " dead" if pos.dead else "")
        cands = [(k, _snippet(k)) for k in STMT_KINDS]
        if not (pos.dead and "illegal-interrupt-in-dead-position" in switches):
            if not pos.in_loop:
                cands += [("break-outside-loop", ast.Break()), ("continue-outside-loop", ast.Continue())]
            if not pos.in_func:
                cands += [("return-outside-function", ast.Return(value=ast.Constant(value=1)))]
        for kind, node in cands:
            pos.lst.insert(pos.index, node)
            src = _src(tree)
            del pos.lst[pos.index]
            yield kind, where, pos.depth >= 1, src
    # expression level
    eps = expr_positions(tree)
    for ei in range(0, len(eps), expr_stride):
        parent, field, idx, node, in_fn = eps[ei]
        for kind in EXPR_KINDS:
            new = wrap_expr(kind, node)
            if idx is None:
                setattr(parent, field, new)
            else:
                getattr(parent, field)[idx] = new
            src = _src(tree)
            if idx is None:
                setattr(parent, field, node)
            else:
                getattr(parent, field)[idx] = node
            yield kind, "expr#%d in %s.%s%s" % (ei, type(parent).__name__, field, " (in function)" if in_fn else ""), True, src
    # second star
    for ti, t in enumerate(star_targets(tree)):
        old = list(t.elts)
        have = sum(isinstance(e, ast.Starred) for e in t.elts)
        for k in range(2 - have if have < 2 else 0):
            t.elts.insert(k * 2 if k * 2 <= len(t.elts) else len(t.elts),
                          ast.Starred(value=ast.Name(id="extra%d" % k, ctx=ast.Store()), ctx=ast.Store()))
        src = _src(tree)
        t.elts[:] = old
        yield "double-star", "target#%d" % ti, True, src


def sample_injections(base_src, rng, k, switches=()):
    """k random injections without enumerating (and printing) all of them"""
    tree = ast.parse(base_src)
    poss = stmt_positions(tree)
    eps = expr_positions(tree)
    out = []
    for _ in range(k):
        if eps and rng.random() < 0.3:
            parent, field, idx, node, in_fn = eps[rng.randrange(len(eps))]
            kind = rng.choice(EXPR_KINDS)
            new = wrap_expr(kind, node)
            if idx is None:
                setattr(parent, field, new)
            else:
                getattr(parent, field)[idx] = new
            src = _src(tree)
            if idx is None:
                setattr(parent, field, node)
            else:
                getattr(parent, field)[idx] = node
            out.append((kind, "expr", True, src))
            continue
        pos = poss[rng.randrange(len(poss))]
        cands = [(kk, None) for kk in STMT_KINDS]
        if not (pos.dead and "illegal-interrupt-in-dead-position" in switches):
            if not pos.in_loop:
                cands += [("break-outside-loop", ast.Break()), ("continue-outside-loop", ast.Continue())]
            if not pos.in_func:
                cands += [("return-outside-function", ast.Return(value=ast.Constant(value=1)))]
        kind, node = cands[rng.randrange(len(cands))]
        if node is None:
            node = _snippet(kind)
        pos.lst.insert(pos.index, node)
        src = _src(tree)
        del pos.lst[pos.index]
        out.append((kind, "stmt%s" % (pos.path,), pos.depth >= 1, src))
    return out


def check_injection(part, construct, where, nontrivial, src, cfgs, base_id):
    try:
        if src is None:
            raise ValueError
        ast.parse(src)
    except (SyntaxError, ValueError, RecursionError):
        part["discarded"]["injection-does-not-parse"] += 1
        return
    part["evaluations"] += 1
    part["classes"]["construct:" + construct] += 1
    part["classes"]["dead-position" if where.endswith("dead") else "live-position"] += 1
    if nontrivial:
        part["nontrivial"].add(key_hash(construct, where, base_id))
    for cfg in cfgs:
        try:
            text = env.convert(src, cfg, 0)
        except Exception:
            continue
        except BaseException as e:
            raise env.HarnessError("conversion raised a non-Exception: %r" % (e,))
        if len(part["violations"]) < 4:
            part["violations"].append({
                "payload": {"kind": "reject", "src": src, "cfg": list(cfg)},
                "diffs": ["conversion of a program containing %s at %s returned: %s" % (construct, where, text[:160])],
                "what": "unsupported/illegal construct accepted (%s)" % construct})
        else:
            part["extra"]["more_accepted"] = part["extra"].get("more_accepted", 0) + 1
        return


def _cfgs(i, all8):
    return env.ALL_CFGS if all8 else (env.ALL_CFGS[i % 8], env.ALL_CFGS[(i + 3) % 8])


_FIXED = {}


def _fixed_injections(stride, switches):
    k = (stride, tuple(switches))
    if k not in _FIXED:
        _FIXED[k] = list(injections(BASE, stride, switches))
    return _FIXED[k]


def _fixed_shard(item):
    shard, nshards, stride, all8, switches = item
    part = new_part()
    # the base itself converts first: whatever the converter remembers about ACCEPTED programs
    # must not make it accept the injected ones
    for cfg in env.ALL_CFGS[:2]:
        env.convert(BASE, cfg, 0)
    for i, (c, w, nt, tree) in enumerate(_fixed_injections(stride, switches)):
        if i % nshards != shard:
            continue
        check_injection(part, c, w, nt, tree, _cfgs(i, all8), "fixed")
    if shard == 0:
        part["samples"].append({"base": "fixed rich base program (see olverif/props/c08.py BASE)",
                                "example": "try/finally inserted after the `return key(acc)` of helper()"})
    return part


def _gen_shard(item):
    seed, n, stride, switches = item
    part = new_part()

    def body(p):
        sub = new_part()
        try:
            compile(p.source, "<base>", "exec")
        except SyntaxError:
            part["discarded"]["base-does-not-compile"] += 1
            return None
        try:
            env.convert(p.source, env.DEFAULT_CFG, 0)      # accepted first (see _fixed_shard)
        except Exception:
            pass
        for i, (c, w, nt, tree) in enumerate(injections(p.source, stride, switches)):
            check_injection(sub, c, w, nt, tree, _cfgs(i, False), key_hash(p.source))
            if sub["violations"]:
                break
        part["evaluations"] += sub["evaluations"]
        part["nontrivial"] |= sub["nontrivial"]
        part["classes"].update(sub["classes"])
        part["discarded"].update(sub["discarded"])
        part["extra"]["base_programs"] = part["extra"].get("base_programs", 0) + 1
        return sub["violations"][0] if sub["violations"] else None

    calls, v = hyp.search(prog.program_strategy(switches, max_stmts=10), body, seed, n,
                          key=lambda p: p.source, shrink_calls=40)
    if v:
        part["violations"].append(v)
    return part


# ------------------------------------------------------------------ nothing with an effect is dropped

# the last sentence of the property: statements that look like they do nothing, but have a
# run-time effect (a logged attribute or item read, a probe call, or the exception CPython raises)
EFFECT_PRE = "o = OBJ('o')\no.a = 1\nb = BOX('b', {'k': 1})\n"
EFFECT_STMTS = [
    ("bare-attribute", "o.a", None),
    ("bare-attribute-chain", "o.a.real", None),
    ("bare-missing-attribute", "o.zz", "AttributeError"),
    ("bare-subscript", "b['k']", None),
    ("bare-missing-key", "b['zz']", "KeyError"),
    ("bare-undefined-name", "undefined_q", "NameError"),
    ("bare-defined-name", "o", None),
    ("bare-call", "M(7)", None),
    ("bare-tuple", "M(7), M(8)", None),
    ("bare-parenthesised-call", "(M(7))", None),
    ("bare-conditional", "M(7) if C(8) else M(9)", None),
    ("bare-boolop", "C(7) and M(8) or M(9)", None),
    ("bare-compare", "P(7, 1) < P(8, 2)", None),
    ("bare-unary", "-P(7, 1)", None),
    ("bare-not", "not P(7, 1)", None),
    ("bare-binop", "P(7, 1) + P(8, 2)", None),
    ("bare-division-by-zero", "1 / P(7, 0)", "ZeroDivisionError"),
    ("bare-fstring", "f'{P(7, 1)}'", None),
    ("bare-list", "[P(7)]", None),
    ("bare-dict", "{P(7, 1): P(8)}", None),
    ("bare-set", "{P(7, 1)}", None),
    ("bare-comprehension", "[P(7, i) for i in P(8, [1, 2])]", None),
    ("bare-generator-expression", "(P(7, i) for i in P(8, [1]))", None),
    ("bare-lambda-call", "(lambda: P(7))()", None),
    ("bare-walrus", "(w := P(7, 1))", None),
    ("bare-attribute-of-call", "P(7, o).a", None),
    ("bare-constant", "'text'", None),
    ("bare-ellipsis", "...", None),
    ("bare-await-free-call-chain", "P(7, o).a.real.bit_length()", None),
]
EFFECT_PLACES = {
    "module": "M(1)\n{S}\nM(2)\n",
    "module-first": "{S}\nM(2)\n",
    "function": "def FF():\n    M(1)\n    {S}\n    M(2)\nFF()\nM(3)\n",
    "function-only-statement": "def FF():\n    {S}\nFF()\nM(3)\n",
    "function-after-docstring": "def FF():\n    'doc'\n    {S}\n    return M(2)\nFF()\n",
    "class": "class KK:\n    M(1)\n    {S}\n    M(2)\nM(3)\n",
    "class-only-statement": "class KK:\n    {S}\nM(3)\n",
    "method": "class KK:\n    def mm(self):\n        {S}\n        M(2)\nKK().mm()\nM(3)\n",
    "if-taken": "if C(1):\n    {S}\nelse:\n    M(2)\nM(3)\n",
    "else-taken": "if not C(1):\n    M(2)\nelse:\n    {S}\nM(3)\n",
    "for-body": "for q in IT(1):\n    {S}\nM(3)\n",
    "for-body-with-break": "for q in IT(1):\n    {S}\n    if C(2):\n        break\nelse:\n    {S}\nM(3)\n",
    "while-body": "n = [0]\nwhile n[0] < 2:\n    n[0] += 1\n    {S}\nelse:\n    {S}\nM(3)\n",
    "function-in-loop-return": "def FF():\n    for q in IT(1):\n        {S}\n        return M(2)\nFF()\nM(3)\n",
}


def effect_program(stmt, place):
    t = EFFECT_PLACES[place]
    lines = []
    for l in t.split("\n"):
        if "{S}" in l:
            lines.append(l.replace("{S}", stmt))
        else:
            lines.append(l)
    return EFFECT_PRE + "\n".join(lines)


def effect_diffs(src, cfg, expect_err):
    """[] when the effect survives (or the program is refused); the differences otherwise"""
    from ..kit import Kit, run_code
    o = run_code(src, "exec", Kit(), want_globals=False)
    if o["err"] != expect_err:
        raise env.HarnessError("effect program: the original ends with %r, expected %r\n%s" % (o["err"], expect_err, src))
    try:
        text = env.convert(src, cfg, 0)
    except Exception:
        return None      # refused: allowed by this property
    c = run_code(text, "eval", Kit(), want_globals=False)
    d = []
    if c["err"] != o["err"]:
        d.append("the source ends with %s, the converted program with %s %s" % (o["err"] or "no exception", c["err"] or "no exception", c["errmsg"][:120]))
    if c["log"] != o["log"]:
        from ..kit import _first_diff
        d.append("trace differs at %s" % (_first_diff(o["log"], c["log"]),))
    return d


def _host_shard(item):
    """injections into the fixed base converted under ANOTHER host interpreter (the set of statement
    classes differs between versions: try/except*, match, type aliases)"""
    from .. import interp
    host, cases = item
    part = new_part()
    pl = interp.Pool()
    try:
        if host not in pl.found:
            part["discarded"]["host-%s-not-found" % host] += len(cases)
            return part
        w = pl.get(host)
        w.call({"op": "convert", "repo": env.REPO, "src": BASE, "cfg": list(env.DEFAULT_CFG), "seed": 0})
        for k, (construct, where, src) in enumerate(cases):
            cfg = env.ALL_CFGS[k % 8]
            r = w.call({"op": "convert", "repo": env.REPO, "src": src, "cfg": list(cfg), "seed": 0})
            if r.get("worker_error"):
                raise env.HarnessError("host worker %s: %s" % (host, r.get("err")))
            part["evaluations"] += 1
            part["classes"]["host:" + host] += 1
            part["nontrivial"].add(key_hash(host, construct, where))
            if r.get("ok") and len(part["violations"]) < 3:
                part["violations"].append({
                    "payload": {"kind": "reject-host", "src": src, "cfg": list(cfg), "host": host},
                    "diffs": ["conversion on host %s of a program containing %s at %s returned: %s" % (
                        host, construct, where, r["text"][:160])],
                    "what": "unsupported/illegal construct accepted on host %s (%s)" % (host, construct)})
    finally:
        pl.close()
    return part


def _effect_shard(item):
    shard, nshards = item
    part = new_part()
    cases = [(n, st, err, pl) for (n, st, err) in EFFECT_STMTS for pl in sorted(EFFECT_PLACES)]
    for k in range(shard, len(cases), nshards):
        name, stmt, err, place = cases[k]
        src = effect_program(stmt, place)
        try:
            compile(src, "<effect>", "exec")
        except SyntaxError as e:
            raise env.HarnessError("effect program does not compile: %s\n%s" % (e, src))
        part["evaluations"] += 1
        part["classes"]["effect:" + name] += 1
        part["classes"]["effect-place:" + place] += 1
        if name not in ("bare-constant", "bare-ellipsis", "bare-defined-name"):
            part["nontrivial"].add(key_hash("effect", name, place))
        for cfg in env.ALL_CFGS:
            d = effect_diffs(src, cfg, err)
            if d is None:
                part["classes"]["effect-program-refused"] += 1
                continue
            if d:
                if len(part["violations"]) < 3:
                    part["violations"].append({
                        "payload": {"kind": "effect", "src": src, "cfg": list(cfg), "err": err},
                        "diffs": d,
                        "what": "a statement with a run-time effect (%s, %s) is dropped or changed and conversion reports success (%s)"
                                % (name, place, env.cfg_name(cfg))})
                break
    return part


def run(report):
    quick = report.tier == "quick"
    report.rule = RULE
    switches = sorted(open_switches('C08'))
    for s in switches:
        report.exclusions[s] = "open finding: shape not injected / not generated"
    ns = env.NPROC * 2
    items = [(_fixed_shard, (s, ns, 1, not quick, switches)) for s in range(ns)]
    per = 4 if quick else 120
    items += [(_gen_shard, (env.sub_seed(report.seed, "C08", i), per, 3 if quick else 1, switches))
              for i in range(env.NPROC)]
    items += [(_effect_shard, (i, 8)) for i in range(8)]
    # "never mistranslated": constructs the converter refuses in some forms only (assignment expressions in
    # while conditions) are either refused or converted to something that behaves like the source
    from ..gen import ww
    items += [(ww.shard, (i, 8, "behaviour")) for i in range(8)]
    from .. import hosts as _hosts
    others = _hosts.available_other_hosts()
    if others:
        per_construct = {}
        for (c, w, nt, src) in _fixed_injections(1, switches):
            if src is not None:
                per_construct.setdefault(c, []).append((c, w, src))
        hcases = []
        keep = 24 if quick else 200
        for c in sorted(per_construct):
            lst = per_construct[c]
            step = max(1, len(lst) // keep)
            hcases += lst[::step][:keep]
            hcases += [x for x in lst if x[1].endswith("dead")][:keep // 3]
        per = max(1, env.NPROC // len(others))
        items += [(_host_shard, (h, hcases[j::per])) for h in others for j in range(per)]
        report.extra["other_hosts"] = others
        report.extra["host_injections_per_host"] = len(hcases)
    for part in env.pmap(_call, items):
        report.absorb(part)
    report.exhaustive = True
    report.notes.append("exhaustive:true refers to the injection positions of each base program "
                        "(all statement positions; expression positions with the stated stride); "
                        "base programs themselves are sampled")
    report.assumptions += ["ast.unparse prints the mutated module faithfully (each injected source is re-parsed)",
                           "any Exception counts as rejection; the injection stages execute nothing",
                           "effect-survival stage: a probe/log entry or the final exception type stands for the run-time effect"]


def _call(item):
    f, arg = item
    return f(arg)


def replay(payload):
    if payload.get("kind") == "reject-host":
        from .. import interp
        pl = interp.Pool()
        try:
            r = pl.get(payload["host"]).call({"op": "convert", "repo": env.REPO, "src": payload["src"],
                                              "cfg": payload["cfg"], "seed": 0})
            return ["conversion on host %s returned: %s" % (payload["host"], r["text"][:160])] if r.get("ok") else []
        finally:
            pl.close()
    if payload.get("kind") == "effect":
        return effect_diffs(payload["src"], tuple(payload["cfg"]), payload.get("err")) or []
    raise env.HarnessError("C08 payloads are of the kinds 'reject' (generic) and 'effect'")
