"""C11 - functions keep their signature, call binding, defaults and decorators.

Domain   G-SIG: all parameter lists with 0-2 positional-only, 0-2 positional-or-keyword (every
         legal number of trailing defaults), optional *args / bare *, 0-2 keyword-only each with
         or without default, optional **kwargs, with and without annotations; defaults refer to
         a name of the DEFINING scope; placement module / nested function / class body.
         A battery of call shapes is applied BY THE HARNESS to both function objects.
Oracle   for every call shape both callables return equal tuples or both raise TypeError;
         inspect.signature (annotations stripped) equal; further templates: decorator stacks,
         return forms, default evaluated once at definition time.
"""
import inspect
import itertools

from hypothesis import strategies as st

from .. import env, hyp
from ..kit import Kit, run_code, canon
from ..oracle import check_program, program_payload, replay_program
from ..runner import new_part, key_hash

RULE = ("all parameter-list shapes (posonly 0-2 x pos-or-kw 0-2 x every number of trailing defaults "
        "x {none, *args, bare *} x kwonly 0-2 each with/without default x optional **kwargs) x "
        "{plain, annotated} x placement {module, nested function with a captured default name, class "
        "body}, and un-annotated in 8 more placements (parameters captured by a nested function; the same "
        "signature on a lambda at module level, in a function, in a class body; def in a loop with "
        "continue/break, in a class in a function, in an if branch, under two decorators); each converted under a rotating pair (quick) / all 8 (thorough) configurations, and "
        "the harness applies a call battery (every positional count 0..p+1, every parameter by keyword, "
        "duplicates, unexpected keyword, * and ** splats of matching and non-matching sizes) to the "
        "original and the converted function object. Non-trivial: >= 2 parameter kinds or a default; "
        "distinct by (shape, annotation, placement).")


def shapes():
    out = []
    for npo in range(3):
        for nar in range(3):
            for ndef in range(npo + nar + 1):
                for star in ("none", "args", "bare"):
                    for nkw in range(3):
                        if star == "bare" and nkw == 0:
                            continue
                        if star == "none" and nkw > 0:
                            continue
                        for kwdef in itertools.product((False, True), repeat=nkw):
                            for kwargs in (False, True):
                                out.append((npo, nar, ndef, star, kwdef, kwargs))
    return out


def render(shape, annotated):
    npo, nar, ndef, star, kwdef, kwargs = shape
    pos = ["p%d" % i for i in range(npo)] + ["a%d" % i for i in range(nar)]
    names = list(pos)
    ann = (lambda n: n + ": int") if annotated else (lambda n: n)
    parts = []
    first_def = len(pos) - ndef
    for i, n in enumerate(pos):
        s = ann(n)
        if i >= first_def:
            s += ("=" if not annotated else " = ") + "dv + %d" % i
        parts.append(s)
        if i == npo - 1:
            parts.append("/")
    if star == "args":
        parts.append("*rest" if not annotated else "*rest: int")
        names.append("rest")
    elif star == "bare":
        parts.append("*")
    for i, d in enumerate(kwdef):
        n = "k%d" % i
        names.append(n)
        parts.append(ann(n) + (("=" if not annotated else " = ") + "dv + %d" % (10 + i) if d else ""))
    if kwargs:
        parts.append("**kw" if not annotated else "**kw: int")
        names.append("kw")
    sig = ", ".join(parts)
    ret = " -> tuple" if annotated else ""
    body = "return (%s)" % (", ".join(names) + ("," if len(names) == 1 else ""))
    return sig, ret, body, pos, ["k%d" % i for i in range(len(kwdef))]


def program(shape, annotated, where):
    sig, ret, body, pos, kws = render(shape, annotated)
    if where == "closure":
        # every parameter (star parameters included) is read by a nested function, i.e. it is a
        # captured variable of f and must be seeded into f's environment at entry
        return "dv = 100\ndef f(%s)%s:\n    def inner():\n        %s\n    return inner()\n" % (sig, ret, body)
    if where == "module":
        return "dv = 100\ndef f(%s)%s:\n    %s\ndv = 200\n" % (sig, ret, body)
    if where == "function":
        return ("def outer():\n    dv = 100\n    def bump():\n        nonlocal dv\n        dv += 100\n"
                "    def f(%s)%s:\n        %s\n    bump()\n    return f\nf = outer()\n" % (sig, ret, body))
    if where == "class":
        return "class K:\n    dv = 100\n    def f(%s)%s:\n        %s\n    dv = 200\nf = K.__dict__['f']\n" % (sig, ret, body)
    expr = body[len("return "):]
    if where == "lambda":
        # the same signature on a lambda (annotations cannot be written there)
        return "dv = 100\nf = lambda %s: %s\ndv = 200\n" % (sig, expr)
    if where == "lambda_in_function":
        return ("def outer():\n    dv = 100\n    def bump():\n        nonlocal dv\n        dv += 100\n"
                "    g = lambda %s: %s\n    bump()\n    return g\nf = outer()\n" % (sig, expr))
    if where == "lambda_in_class":
        return "class K:\n    dv = 100\n    f = lambda %s: %s\n    dv = 200\nf = K.__dict__['f']\n" % (sig, expr)
    if where == "loop":
        return "fs = []\nfor dv in (100, 300):\n    def f(%s)%s:\n        %s\n    fs.append(f)\n    if dv == 100:\n        continue\n    break\nf = fs[0]\n" % (sig, ret, body)
    if where == "class_in_function":
        return ("def outer(dv):\n    class K:\n        def f(%s)%s:\n            %s\n    dv += 1\n    return K\nf = outer(100).__dict__['f']\n"
                % (sig, ret, body))
    if where == "branch":
        return "dv = 100\nif dv:\n    def f(%s)%s:\n        %s\nelse:\n    def f():\n        return None\ndv = 200\n" % (sig, ret, body)
    if where == "nested_named_top":
        # a function called `top` (the symtable module takes a block of that name for the module block) nested
        # in a function whose locals are spelled like its parameters
        return ("def outer(p0=90, p1=91, a0=92, a1=93, k0=94, k1=95, rest=96, kw=97):\n    dv = 100\n"
                "    def top(%s)%s:\n        %s\n    return top\nf = outer()\n" % (sig, ret, body))
    if where == "method_in_class_in_function":
        # defaults read a name that the class binds LATER: until then the module variable counts, not the
        # enclosing function's local of the same spelling
        return ("dv = 100\ndef outer():\n    dv = 300\n    class K:\n        def f(%s)%s:\n            %s\n        dv = 200\n    return K\nf = outer().__dict__['f']\n"
                % (sig, ret, body))
    if where == "decorated":
        return ("dv = 100\ndef keep(fn):\n    return fn\n@keep\n@keep\ndef f(%s)%s:\n    %s\ndv = 200\n" % (sig, ret, body))
    raise ValueError(where)


MORE_PLACEMENTS = ("lambda", "lambda_in_function", "lambda_in_class", "loop", "class_in_function", "branch", "decorated",
                   "nested_named_top", "method_in_class_in_function")


def battery(shape):
    npo, nar, ndef, star, kwdef, kwargs = shape
    pos_names = ["p%d" % i for i in range(npo)] + ["a%d" % i for i in range(nar)]
    kw_names = ["k%d" % i for i in range(len(kwdef))]
    p = len(pos_names)
    calls = []
    allkw = {n: 50 + i for i, n in enumerate(kw_names)}
    for n in range(0, p + 2):
        calls.append((tuple(range(1, n + 1)), {}))
        calls.append((tuple(range(1, n + 1)), dict(allkw)))
    for n in pos_names + kw_names:
        calls.append(((), {n: 7}))
        calls.append(((), dict(allkw, **{n: 7})))
        calls.append((tuple(range(1, p + 1)), {n: 7}))          # duplicate for positional names
        calls.append((tuple(range(1, max(0, p - 1) + 1)), dict(allkw, **{n: 7})))
    # every positional-or-keyword parameter by keyword, the ones before it positionally
    for i, n in enumerate(pos_names):
        kw = {m: 20 + j for j, m in enumerate(pos_names[i:])}
        calls.append((tuple(range(1, i + 1)), dict(allkw, **kw)))
    calls.append(((), {"zz": 1}))
    calls.append((tuple(range(1, p + 1)), dict(allkw, zz=1)))
    calls.append((tuple(range(1, p + 4)), dict(allkw)))
    for missing in kw_names:
        kw = dict(allkw)
        del kw[missing]
        calls.append((tuple(range(1, p + 1)), kw))
    return calls


def apply_battery(f, g, shape):
    diffs = []
    for args, kw in battery(shape):
        ra = _call(f, args, kw)
        rb = _call(g, args, kw)
        if ra != rb:
            diffs.append("call f(*%r, **%r): original %s, converted %s" % (args, kw, ra, rb))
            if len(diffs) >= 3:
                break
    return diffs


def _call(f, args, kw):
    try:
        return ("ok", canon(f(*args, **kw)))
    except TypeError:
        return ("TypeError",)
    except BaseException as e:
        return ("raise", type(e).__name__)


def sig_string(f):
    try:
        s = inspect.signature(f)
    except (TypeError, ValueError) as e:
        return "no-signature:%s" % type(e).__name__
    ps = [p.replace(annotation=inspect.Parameter.empty) for p in s.parameters.values()]
    return str(s.replace(parameters=ps, return_annotation=inspect.Signature.empty))


def check_shape(part, shape, annotated, where, cfgs):
    src = program(shape, annotated, where)
    o = run_code(src, "exec", want_globals=False)
    if not o["ok"]:
        raise env.HarnessError("signature program raises: %s %s\n%s" % (o["err"], o["errmsg"], src))
    f = o["ns"]["f"]
    part["evaluations"] += 1
    part["classes"]["placement:" + where] += 1
    npo, nar, ndef, star, kwdef, kwargs = shape
    kinds = (npo > 0) + (nar > 0) + (star == "args") + (len(kwdef) > 0) + bool(kwargs)
    if kinds >= 2 or ndef or any(kwdef):
        part["nontrivial"].add(key_hash(shape, annotated, where))
    for cfg in cfgs:
        try:
            text = env.convert(src, cfg, 0)
        except BaseException as e:
            diffs = ["conversion raised %s: %s" % (type(e).__name__, str(e)[:200])]
        else:
            c = run_code(text, "eval", want_globals=False, filename="<converted>")
            if not c["ok"]:
                diffs = ["converted program raised %s: %s" % (c["err"], c["errmsg"])]
            elif "f" not in c["ns"]:
                diffs = ["converted program does not bind f"]
            else:
                g = c["ns"]["f"]
                diffs = apply_battery(f, g, shape)
                sa, sb = sig_string(f), sig_string(g)
                if sa != sb:
                    diffs.append("inspect.signature differs: %s vs %s" % (sa, sb))
        part["extra"]["calls_compared"] = part["extra"].get("calls_compared", 0) + len(battery(shape))
        if diffs:
            part["violations"].append({
                "payload": {"kind": "sig", "shape": [npo, nar, ndef, star, list(kwdef), kwargs],
                            "annotated": annotated, "where": where, "cfg": list(cfg)},
                "diffs": diffs, "what": "function signature/binding differs: def f(%s) in %s placement (%s)" % (
                    render(shape, annotated)[0], where, env.cfg_name(cfg))})
            return


def _cfgs(i, all8):
    if all8:
        return env.ALL_CFGS
    return [env.ALL_CFGS[i % 8], env.ALL_CFGS[(i + 4) % 8]]


def _shape_shard(item):
    idx, nshards, all8 = item
    part = new_part()
    cases = [(sh, an, wh) for sh in shapes() for an in (False, True) for wh in ("module", "function", "class")]
    cases += [(sh, False, "closure") for sh in shapes()]
    cases += [(sh, False, wh) for sh in shapes() for wh in MORE_PLACEMENTS]
    for k in range(idx, len(cases), nshards):
        if len(part["violations"]) >= 3:
            break
        sh, an, wh = cases[k]
        check_shape(part, sh, an, wh, _cfgs(k, all8))
    if idx == 0:
        part["samples"].append(program((1, 1, 1, "args", (True, False), True), True, "function"))
    return part


# ------------------------------------------------------------------ further templates (whole-program oracle)

TEMPLATES = [
    # stacked decorators: evaluated top-down, applied bottom-up
    "def tag(t):\n    L('mk', t)\n    def d(fn):\n        L('apply', t)\n        def w(*a, **k):\n            return (t, fn(*a, **k))\n        return w\n    return d\n"
    "@tag('a')\n@tag('b')\n@tag('c')\ndef f(x, y=2):\n    return x + y\nL('r', f(1), f(1, y=5))",
    # returns: several / none / bare
    "def f(x):\n    if x > 2:\n        return 'big'\n    if x == 2:\n        return\n    for i in range(3):\n        if i == x:\n            return i\nL('r', f(5), f(2), f(1), f(-1))",
    "def f():\n    pass\ndef g():\n    return\ndef h():\n    x = 1\nL('r', f(), g(), h())",
    # defaults evaluated once at definition, in the defining scope
    "n = 1\ndef f(a=[], b=n, *, c=n * 2):\n    a.append(b)\n    return (a, b, c)\nn = 50\nL('r', f(), f(), f([9], 3, c=4), f())",
    "def outer(n):\n    def f(a=n, *, c=n + 1):\n        return (a, c, n)\n    n = 99\n    return f\nL('r', outer(1)(), outer(2)(7, c=8))",
    "class K:\n    n = 3\n    def m(self, a=n, *, c=n + 1):\n        return (a, c)\n    n = 4\nL('r', K().m(), K().m(1, c=2))",
    # lambda defaults and binding
    "n = 2\ng = lambda a, b=n, /, c=n + 1, *r, k, j=n * 5, **kw: (a, b, c, r, k, j, sorted(kw))\nn = 9\nL('r', g(1, k=0), g(1, 2, 3, 4, 5, k=6, j=7, z=8))",
    # default expressions of every syntactic kind, in positional and keyword-only position
    "dv = 3\ndef f(a=(w0 := dv + 1), b=(lambda: dv), c=(1, 2), d=dv if dv else 0, /, e=[*range(2)], *, k=(w1 := dv * 2), j=(lambda q=dv: q), t=(dv, (dv,)), u={dv: dv}, v=not dv, **rest):\n    return (a, b(), c, d, e, k, j(), t, u, v, sorted(rest))\nL('r', f(), f(9, k=8, zz=1), w0, w1)",
    "g = lambda a=(w0 := 5), *r, k=(w1 := 6), j=(yes if (yes := 1) else 0): (a, r, k, j)\nL('r', g(), g(1, 2, k=3), w0, w1)",
    # search loop: break / else: return / fall through to a return behind the loop
    "def find(xs, want):\n    for x in xs:\n        if x == want:\n            break\n    else:\n        return None\n    return ('found', x)\nL('r', find([1, 2, 3], 2), find([1, 2], 9), find([], 1))",
    "def find(xs, want):\n    i = 0\n    while i < len(xs):\n        if xs[i] == want:\n            break\n        i += 1\n    else:\n        return -1\n    return i\nL('r', find([1, 2, 3], 3), find([1], 5))",
    # star parameters captured by a nested function and rebound
    "def f(*args, **kw):\n    def g():\n        nonlocal args, kw\n        args = args + (1,)\n        kw = dict(kw, z=0)\n        return len(args)\n    n = g()\n    return (n, args, sorted(kw))\nL('r', f(), f(5, 6, a=1))",
    # the value of the return that was taken, in nested loops with else / continue / break
    "def f(xs):\n    for x in xs:\n        for y in range(x):\n            if y == 2:\n                break\n        else:\n            if x % 2:\n                continue\n            return ('even-without-break', x)\n        if x > 4:\n            return ('broke', x)\n    return 'end'\nL('r', f([1, 2]), f([3, 1]), f([1, 3, 5]), f([]))",
    "def f(n):\n    i = 0\n    while i < n:\n        i += 1\n        for j in range(i):\n            if j == 1:\n                continue\n            if j == 3:\n                return ('j3', i)\n        else:\n            if i == 2:\n                continue\n            if i == 5:\n                break\n    else:\n        return ('exhausted', i)\n    return ('broke', i)\nL('r', f(1), f(3), f(4), f(9))",
    # parameters (star parameters too) read ONLY by the body of a class nested in the function
    "def f(a, b=2, *r, k=1, **kw):\n    class K:\n        got = (a, b, r, k, sorted(kw))\n        comp = [a for _q in range(1)]\n    return K.got, K.comp\nL('r', f(1), f(1, 2, 3, k=4, z=5))",
    # lambda defaults spelled like the parameter, read from the enclosing function's rebindable variables
    "def mk(n, label='x'):\n    def bump():\n        nonlocal n, label\n        n += 1\n        label += '!'\n    bump()\n    g = lambda n=n, *, label=label: (n, label)\n    bump()\n    return g(), g(0, label='y'), n, label\nL('r', mk(1))",
    "class K:\n    n = 3\n    g = lambda self, n=n, *, m=n + 1: (n, m)\n    n = 9\nL('r', K().g(), K().g(1, m=2))",
    # call binding: positional, keyword, * and ** argument VALUES that read rebindable variables of an
    # enclosing function, class members in a class body, a declared global shadowed by an outer local
    "def report(t, *, width=10, fill='.'):\n    return (t, width, fill)\ndef build(width, fill='-'):\n    def widen():\n        nonlocal width, fill\n        width += 2\n        fill += '+'\n    widen()\n    opts = {'fill': fill}\n    pos = (width,)\n    return (report('a', width=width), report('b', **opts), report(*pos, fill=fill),\n            report(t=width, width=(w := width * 2), fill=(lambda: fill)()), w, report(*[width], **{'fill': fill, 'width': width}))\nL('r', build(4))",
    "def show(*a, **k):\n    return (a, sorted(k.items()))\nclass K:\n    n = 3\n    opts = {'z': n}\n    r1 = show(n, k=n)\n    r2 = show(*[n], **opts, j=n + 1)\n    n = 4\n    r3 = show(k=n, **{'y': n})\n    def m(self, n=n):\n        return show(n, k=n, s=self.n)\nL('r', K.r1, K.r2, K.r3, K().m(), K().m(n=0))",
    "g = 'glob'\ndef show(*a, **k):\n    return (a, sorted(k.items()))\ndef outer(h='param'):\n    g = 'outer-local'\n    def inner():\n        global g\n        return show(g, k=g, **{'j': g}), show(h, k=h, *[h])\n    return inner(), show(k=g, **{'j': g})\nL('r', outer())",
    "def show(*a, **k):\n    return (a, sorted(k.items()))\ndef f(n):\n    def bump():\n        nonlocal n\n        n += 1\n        return n\n    return show(n, bump(), n, k=n, j=bump(), i=n, **{'h': n}), [show(e, k=n + e) for e in range(2)], (lambda q=n, **kw: show(q, k=n, **kw))(z=n)\nL('r', f(1))",
    # an interrupt that is the whole if-branch, in tail position, with an else: exactly one branch runs
    "def f(c):\n    if c:\n        return\n    else:\n        L('else', c)\ndef g(c):\n    L('pre', c)\n    if c == 1:\n        return\n    elif c == 2:\n        return 'two'\n    else:\n        L('else', c)\n        return 'else'\nL('r', f(1), f(0), g(1), g(2), g(3))",
    "def f(xs):\n    for x in xs:\n        if x:\n            continue\n        else:\n            L('falsy', x)\n    for x in xs:\n        if x:\n            break\n        else:\n            L('before', x)\n    else:\n        return 'no break'\nL('r', f([0, 1, 0]), f([0, 0]), f([]))",
    # the returned value is falsy (0, None, '', [], False): the caller gets exactly that object
    "def f(k):\n    if k == 0:\n        return 0\n    if k == 1:\n        return ''\n    if k == 2:\n        return []\n    if k == 3:\n        return None\n    if k == 4:\n        return False\n    for i in range(3):\n        if i == 1:\n            return 0.0\n    return 'end'\nL('r', [f(k) for k in range(6)])",
    # if / elif WITHOUT else: no branch taken means None (not the value of a branch), also for falsy branch values
    "def f(x):\n    if x == 1:\n        return 'a'\n    elif x == 2:\n        return 'b'\n    elif x == 3:\n        return 0\nL('r', f(1), f(2), f(3), f(4))",
    "def f(x):\n    r = 'init'\n    if x == 1:\n        r = 0\n    elif x == 2:\n        r = None\n    elif x == 3:\n        r = 'c'\n    return r\ndef g(x):\n    if x:\n        if x == 1:\n            return []\n        elif x == 2:\n            return ''\n    elif x is None:\n        return 'none'\n    return 'end'\nL('r', [f(i) for i in range(5)], [g(i) for i in (0, 1, 2, 3, None)])",
    # recursion and closures keep binding
    "def fact(n, acc=1):\n    return acc if n <= 1 else fact(n - 1, acc * n)\nL('r', fact(5), fact(n=3), fact(4, acc=2))",
    "def deco(fn):\n    def w(*a, **k):\n        return fn(*a, **k)\n    return w\nclass K:\n    @deco\n    def m(self, x, /, y=2, *, z=3):\n        return (x, y, z)\n    @staticmethod\n    @deco\n    def s(x=1):\n        return x\n    @classmethod\n    def c(cls, *a, **k):\n        return (cls.__name__, a, sorted(k))\nL('r', K().m(1), K().m(1, 5, z=6), K.s(), K().s(4), K.c(1, q=2), K().c())",
]


def _template_shard(item):
    i, src = item
    part = new_part()
    o = run_code(src, "exec")
    if not o["ok"]:
        raise env.HarnessError("C11 template raises: %s %s\n%s" % (o["err"], o["errmsg"], src))
    part["evaluations"] += 1
    part["classes"]["template"] += 1
    part["nontrivial"].add(key_hash(src))
    status, failures, _ = check_program(src, env.ALL_CFGS, orig=o)
    if status == "fail":
        cfg, diffs, text = failures[0]
        part["violations"].append({"payload": program_payload(src, cfg), "diffs": diffs,
                                   "what": "function template %d behaves differently" % i})
        return part
    # the template with falsy / negative / empty / non-ASCII defaults, arguments and return values
    from ..gen import perturb
    for mode in perturb.MODES:
        v = perturb.perturb(src + "\n", mode)
        if v is None:
            continue
        ov = run_code(v, "exec", wall=3)
        if not ov["ok"]:
            part["discarded"]["value-variant-original-raises"] += 1
            continue
        part["evaluations"] += 1
        part["classes"]["template-value-variant:" + mode] += 1
        status, failures, _ = check_program(v, env.ALL_CFGS, orig=ov)
        if status == "fail":
            cfg, diffs, text = failures[0]
            part["violations"].append({"payload": program_payload(v, cfg), "diffs": diffs,
                                       "what": "the %s-valued variant of function template %d behaves differently" % (mode, i)})
            break
    return part


def run(report):
    quick = report.tier == "quick"
    report.rule = RULE
    ns = env.NPROC * 4
    items = [(_shape_shard, (i, ns, True)) for i in range(ns)]
    items += [(_template_shard, (i, t + "\n")) for i, t in enumerate(TEMPLATES)]
    for part in env.pmap(_callf, items):
        report.absorb(part)
    report.extra["shapes"] = len(shapes())
    report.exhaustive = True
    report.assumptions += ["TypeError is compared by type only (messages name <lambda>)",
                           "annotations are metadata and are stripped before comparing signatures"]


def _callf(item):
    f, arg = item
    return f(arg)


def replay(payload):
    if payload.get("kind") == "sig":
        sh = payload["shape"]
        shape = (sh[0], sh[1], sh[2], sh[3], tuple(sh[4]), sh[5])
        part = new_part()
        check_shape(part, shape, payload["annotated"], payload["where"], [tuple(payload["cfg"])])
        out = []
        for v in part["violations"]:
            out += v["diffs"]
        return out
    return replay_program(payload)
