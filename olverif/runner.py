"""Tiers, seeds, evidence, replay files, known findings, exit codes."""
import collections
import hashlib
import importlib
import json
import os
import sys
import time
import traceback

from . import env

PROPS = ["C%02d" % i for i in range(1, 18)]
MAX_SAMPLES = 12
MAX_REPLAYS = 5   # smallest first; the count of all violations is in the evidence


class Report(object):
    """What one engine run covered. Engines fill it; the runner turns it into evidence."""

    def __init__(self, prop, tier, seed):
        self.prop, self.tier, self.seed = prop, tier, seed
        self.evaluations = 0
        self.nontrivial = set()       # hashes / keys of distinct non-trivial cases
        self.nontrivial_extra = 0     # counted distinct by construction (partitioned sweeps)
        self.rule = ""
        self.samples = []
        self.classes = collections.Counter()
        self.violations = []          # dicts: {"payload":..., "diffs":[...], "what": str}
        self.extra = {}               # further coverage keys
        self.assumptions = []
        self.exhaustive = None
        self.exclusions = {}          # switch name -> inputs removed / shapes not generated
        self.discarded = collections.Counter()
        self.notes = []

    def absorb(self, part):
        """merge a picklable dict returned by a shard"""
        self.evaluations += part.get("evaluations", 0)
        nt = part.get("nontrivial")
        if isinstance(nt, (set, list, tuple)):
            self.nontrivial.update(nt)
        elif isinstance(nt, int):
            self.nontrivial_extra += nt
        self.classes.update(part.get("classes", {}))
        self.discarded.update(part.get("discarded", {}))
        for k, v in part.get("exclusions", {}).items():
            self.exclusions[k] = self.exclusions.get(k, 0) + v
        for s in part.get("samples", []):
            if len(self.samples) < MAX_SAMPLES:
                self.samples.append(s)
        self.violations.extend(part.get("violations", []))
        for k, v in part.get("extra", {}).items():
            if isinstance(v, (int, float)) and isinstance(self.extra.get(k, 0), (int, float)):
                self.extra[k] = self.extra.get(k, 0) + v
            elif isinstance(v, list) and isinstance(self.extra.get(k, []), list) and k.endswith("_outside_the_domain"):
                self.extra[k] = sorted(set(self.extra.get(k, []) + v))
            else:
                self.extra[k] = v

    @property
    def distinct_nontrivial(self):
        return len(self.nontrivial) + self.nontrivial_extra


def new_part():
    return {"evaluations": 0, "nontrivial": set(), "classes": collections.Counter(),
            "discarded": collections.Counter(), "samples": [], "violations": [],
            "exclusions": {}, "extra": {}}


def key_hash(*parts):
    return int.from_bytes(hashlib.blake2b(repr(parts).encode(), digest_size=8).digest(), "big")


def out_base():
    """evidence/ and replays/ live in /verif; development runs against a scratch copy of the
    repository (OL_REPO set by the mutation tooling) write elsewhere so that the committed
    evidence always describes /repo itself"""
    return os.environ.get("OLVERIF_OUT") or env.VERIF


def engine(prop):
    return importlib.import_module("olverif.props.%s" % prop.lower())


# --------------------------------------------------------------------------- findings

def load_findings():
    path = os.path.join(env.VERIF, "known_findings.json")
    if not os.path.exists(path):
        return {"open": [], "fixed": []}
    with open(path) as f:
        d = json.load(f)
    d.setdefault("open", [])
    d.setdefault("fixed", [])
    return d


def open_switches(prop=None):
    """names of the exclusion switches owned by open findings; with `prop`, only those of
    findings filed under that property (or naming it in "applies_to")"""
    out = set()
    for e in load_findings()["open"]:
        if prop is not None and e.get("property") != prop and prop not in e.get("applies_to", []):
            continue
        for s in e.get("switches", []):
            out.add(s)
    return out


def write_replay(prop, payload, diffs, what=""):
    body = {"property": prop, "payload": payload, "diffs": diffs, "what": what}
    blob = json.dumps(body, sort_keys=True, indent=1, default=repr)
    sha = hashlib.sha256(blob.encode()).hexdigest()[:16]
    d = os.path.join(out_base(), "replays", prop)
    os.makedirs(d, exist_ok=True)
    path = os.path.join(d, sha + ".json")
    with open(path, "w") as f:
        f.write(blob)
    return path


def isolated_replay(prop, payload):
    """replay in a fresh interpreter (for properties about process-wide state)"""
    import subprocess
    import tempfile
    with tempfile.NamedTemporaryFile("w", suffix=".json", delete=False) as f:
        json.dump({"payload": payload}, f)
        path = f.name
    try:
        p = subprocess.run([sys.executable, "-m", "olverif", prop, "--replay", path],
                           capture_output=True, text=True, timeout=900)
    finally:
        os.unlink(path)
    if p.returncode == 0:
        return []
    if p.returncode == 1:
        return [l.strip() for l in p.stdout.splitlines() if l.startswith("  ")] or ["replay failed"]
    raise env.HarnessError("isolated replay failed: %s" % p.stderr[-400:])


def generic_replay(w):
    """payload kinds every engine shares"""
    k = w.get("kind")
    if k == "program":
        from .oracle import replay_program
        return replay_program(w)
    if k == "program-host":
        from . import hosts
        return hosts.replay(w)
    if k == "reject":
        out = []
        for cfg in ([tuple(w["cfg"])] if w.get("cfg") else env.ALL_CFGS):
            try:
                text = env.convert(w["src"], cfg, 0)
            except Exception:
                continue
            out.append("[%s] conversion returned instead of raising: %s" % (env.cfg_name(cfg), text[:200]))
        return out
    return None


def _replay(prop, eng, w):
    g = generic_replay(w)
    if g is not None:
        return g
    if getattr(eng, "REPLAY_IN_FRESH_PROCESS", False):
        return isolated_replay(prop, w)
    return eng.replay(w)


def replay_findings(prop, eng, report):
    """Replay the witnesses of this property's entries. Open + still failing ->
    KNOWN-FINDING line; fixed + failing -> violation."""
    kf = load_findings()
    status = []
    for e in kf["open"]:
        if e.get("property") != prop:
            continue
        failing = 0
        for w in e.get("witnesses", []):
            try:
                diffs = _replay(prop, eng, w)
            except env.HarnessError:
                raise
            except BaseException as ex:
                diffs = ["replay raised %s: %s" % (type(ex).__name__, ex)]
            if diffs:
                failing += 1
        if failing:
            print("KNOWN-FINDING: property=%s %s %s" % (prop, e["id"], e["what"]))
        status.append({"id": e["id"], "witnesses": len(e.get("witnesses", [])),
                       "still_failing": failing,
                       "state": "reproduces" if failing else "no longer reproduces"})
    for e in kf["fixed"]:
        if e.get("property") != prop:
            continue
        for w in e.get("witnesses", []):
            try:
                diffs = _replay(prop, eng, w)
            except env.HarnessError:
                raise
            except BaseException as ex:
                diffs = ["replay raised %s: %s" % (type(ex).__name__, ex)]
            if diffs:
                report.violations.append({"payload": w, "diffs": diffs,
                                          "what": "regression of fixed finding %s: %s" % (e["id"], e["what"])})
                status.append({"id": e["id"], "state": "REGRESSED"})
            else:
                status.append({"id": e["id"], "state": "fixed, witness passes"})
    report.extra["known_findings_replayed"] = status


# --------------------------------------------------------------------------- evidence

def write_evidence(report, wall, level="exploration"):
    cov = {
        "evaluations": int(report.evaluations),
        "distinct_nontrivial": int(report.distinct_nontrivial),
        "rule": report.rule,
        "samples": report.samples[:MAX_SAMPLES] or ["(no sample recorded)"],
        "classes": dict(sorted(report.classes.items(), key=lambda kv: str(kv[0]))),
        "discarded": dict(report.discarded),
        "exclusion_switches_in_force": report.exclusions,
        "notes": report.notes,
    }
    if report.exhaustive is not None:
        cov["exhaustive"] = bool(report.exhaustive)
    cov.update(report.extra)
    ev = {
        "property_id": report.prop,
        "tier": report.tier,
        "seed": int(report.seed),
        "level": level,
        "coverage": cov,
        "assumptions": report.assumptions,
        "wall_s": round(wall, 2),
        "violations": len(report.violations),
    }
    d = os.path.join(out_base(), "evidence")
    os.makedirs(d, exist_ok=True)
    path = os.path.join(d, report.prop + ".json")
    tmp = path + ".tmp"
    with open(tmp, "w") as f:
        json.dump(ev, f, indent=1, default=repr, sort_keys=False)
    os.replace(tmp, path)
    return path


# --------------------------------------------------------------------------- main

def main(argv):
    import argparse

    ap = argparse.ArgumentParser(prog="check")
    ap.add_argument("prop")
    ap.add_argument("tier", nargs="?", default=os.environ.get("VERIF_TIER", "quick"),
                    choices=["quick", "thorough"])
    ap.add_argument("--replay")
    a = ap.parse_args(argv)
    prop = a.prop.upper()
    if prop not in PROPS:
        print("unknown property %s" % prop, file=sys.stderr)
        return 2
    t0 = time.time()
    for stream in (sys.stdout, sys.stderr):
        try:
            stream.reconfigure(errors="backslashreplace")
        except Exception:
            pass
    try:
        env.oneliner()
        eng = engine(prop)
        if a.replay:
            with open(a.replay) as f:
                body = json.load(f)
            payload = body.get("payload", body)
            diffs = generic_replay(payload)
            if diffs is None:
                diffs = eng.replay(payload)
            if diffs:
                for d in diffs:
                    print("  " + str(d))
                print("VIOLATION property=%s replay=%s" % (prop, os.path.abspath(a.replay)))
                return 1
            print("replay passes: property=%s %s" % (prop, a.replay))
            return 0
        seed = env.tier_seed()
        report = Report(prop, a.tier, seed)
        eng.run(report)
        replay_findings(prop, eng, report)
        wall = time.time() - t0
        old_dir = os.path.join(out_base(), "replays", prop)
        if os.path.isdir(old_dir):
            for f in os.listdir(old_dir):   # replay files describe the latest run only
                if f.endswith(".json"):
                    os.unlink(os.path.join(old_dir, f))
        seen = set()
        lines = []
        report.violations.sort(key=lambda v: len(json.dumps(v["payload"], default=repr)))
        for v in report.violations[:MAX_REPLAYS]:
            path = write_replay(prop, v["payload"], v["diffs"], v.get("what", ""))
            if path in seen:
                continue
            seen.add(path)
            lines.append((path, v))
        write_evidence(report, wall)
        for path, v in lines[:20]:
            print("--- %s" % v.get("what", ""))
            for d in v["diffs"][:6]:
                print("    " + str(d)[:400])
            print("VIOLATION property=%s replay=%s" % (prop, path))
        print("%s %s seed=%d: %d evaluations, %d distinct non-trivial, %d violation(s), %.1fs"
              % (prop, a.tier, seed, report.evaluations, report.distinct_nontrivial,
                 len(lines), wall))
        return 1 if lines else 0
    except env.HarnessError as e:
        print("HARNESS-ERROR: %s" % e, file=sys.stderr)
        return 2
    except BaseException:
        traceback.print_exc()
        print("HARNESS-ERROR: internal exception (see traceback)", file=sys.stderr)
        return 2
