"""Case runner for other interpreters. stdlib only, Python 3.8 syntax.

Started as `python worker.py <verif-dir>` and driven over a JSON-lines pipe:
  {"op": "ping"}                                   -> {"ok": true, "version": [3, 8, 18]}
  {"op": "convert", "repo":..., "src":..., "cfg": [u, w, s], "seed": 0}
                                                   -> {"ok": true, "text": ...} | {"ok": false, "err": ...}
  {"op": "run", "text":..., "mode": "exec"|"eval", "sched": 0, "fuel": 200000}
                                                   -> {"ok":..., "err":..., "errmsg":..., "stdout":..., "log_len":..., "globals": {...}}
  {"op": "compile", "text":..., "mode": ...}       -> {"ok": bool, "err": ...}
  {"op": "roundtrip", "repo":..., "sources": [...]} -> {"ok": true, "parsed": n, "failures": [[index, why], ...]}
"""
import json
import sys


def _rt_norm(n):
    import ast
    if isinstance(n, ast.AST):
        if isinstance(n, ast.Constant):
            v = n.value
            if type(v) is int:
                return ("Constant", "int", hex(v))
            return ("Constant", type(v).__name__, repr(v))
        return (type(n).__name__, tuple((f, _rt_norm(getattr(n, f, None))) for f in n._fields
                                         if f not in ("ctx", "kind", "type_comment")))
    if isinstance(n, list):
        return tuple(_rt_norm(x) for x in n)
    return n


def main():
    verif = sys.argv[1]
    sys.path.insert(0, verif)
    from olverif import kit
    out = sys.stdout
    # programs print to sys.stdout: run_code redirects it; the protocol uses the real stream
    proto = sys.__stdout__
    ol = {}
    for line in sys.stdin:
        line = line.strip()
        if not line:
            continue
        try:
            job = json.loads(line)
            op = job.get("op")
            if op == "ping":
                res = {"ok": True, "version": list(sys.version_info[:3])}
            elif op == "convert":
                repo = job["repo"]
                if repo not in ol:
                    if sys.path[0] != repo:
                        sys.path.insert(0, repo)
                    import oneliner
                    from oneliner.config import Configs
                    ol[repo] = (oneliner, Configs)
                oneliner, Configs = ol[repo]
                import random
                c = Configs()
                c.unparser, c.expr_wrapper, c.if_style = job["cfg"]
                random.seed(job.get("seed", 0))
                try:
                    res = {"ok": True, "text": oneliner.convert_code_string(job["src"], configs=c)}
                except BaseException as e:
                    res = {"ok": False, "err": "%s: %s" % (type(e).__name__, str(e)[:200])}
            elif op == "run":
                k = kit.Kit(job.get("sched", 0), job.get("fuel", 200000))
                o = kit.run_code(job["text"], job["mode"], k, wall=job.get("wall", 20))
                res = {"ok": o["ok"], "err": o["err"], "errmsg": o["errmsg"], "stdout": o["stdout"],
                       "log": o["log"] if job.get("want_log") else None, "log_len": len(o["log"]),
                       "globals": o["globals"], "used": o["used"]}
            elif op == "check":
                # whole-program oracle inside this interpreter (host == runtime == this one)
                import os
                os.environ["OL_REPO"] = job["repo"]
                from olverif import oracle
                status, failures, orig = oracle.check_program(
                    job["src"], [tuple(c) for c in job["cfgs"]], job.get("sched", 0), job.get("seed", 0),
                    check_globals=job.get("check_globals", True), check_log=job.get("check_log", True),
                    check_stdout=job.get("check_stdout", True))
                res = {"ok": True, "status": status, "orig_err": orig.get("err"),
                       "failures": [[list(c), d] for (c, d, t) in failures]}
            elif op == "roundtrip":
                # C03/C04 under THIS host: parse each source, unparse with the project's unparser, parse
                # the text back here, compare the trees (modulo ctx / kind), no line break in the text
                repo = job["repo"]
                if sys.path[0] != repo:
                    sys.path.insert(0, repo)
                import ast
                from oneliner.expr_unparse import expr_unparse
                fails, parsed = [], 0
                for idx, src in enumerate(job["sources"]):
                    try:
                        tree = ast.parse(src, mode="eval").body
                    except (SyntaxError, ValueError, RecursionError, MemoryError):
                        continue
                    parsed += 1
                    try:
                        text = expr_unparse(tree)
                    except BaseException as e:
                        fails.append([idx, "expr_unparse raised %s: %s" % (type(e).__name__, str(e)[:120])])
                        continue
                    if "\n" in text or "\r" in text:
                        fails.append([idx, "unparsed text contains a line break"])
                        continue
                    try:
                        back = ast.parse(text, mode="eval").body
                    except BaseException as e:
                        fails.append([idx, "unparsed text does not parse on this host: %s: %r" % (type(e).__name__, text[:120])])
                        continue
                    if _rt_norm(tree) != _rt_norm(back):
                        fails.append([idx, "tree differs after the round trip on this host: %r" % text[:120]])
                res = {"ok": True, "parsed": parsed, "failures": fails[:20], "n_failures": len(fails)}
            elif op == "compile":
                try:
                    compile(job["text"], "<w>", job.get("mode", "exec"))
                    res = {"ok": True}
                except BaseException as e:
                    res = {"ok": False, "err": "%s: %s" % (type(e).__name__, str(e)[:200])}
            else:
                res = {"ok": False, "err": "unknown op %r" % (op,)}
        except BaseException as e:  # protocol-level trouble
            res = {"ok": False, "err": "worker: %s: %s" % (type(e).__name__, str(e)[:200]), "worker_error": True}
        proto.write(json.dumps(res, default=repr) + "\n")
        proto.flush()


if __name__ == "__main__":
    main()
