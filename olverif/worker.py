"""Case runner for other interpreters. stdlib only, Python 3.8 syntax.

Started as `python worker.py <verif-dir>` and driven over a JSON-lines pipe:
  {"op": "ping"}                                   -> {"ok": true, "version": [3, 8, 18]}
  {"op": "convert", "repo":..., "src":..., "cfg": [u, w, s], "seed": 0}
                                                   -> {"ok": true, "text": ...} | {"ok": false, "err": ...}
  {"op": "run", "text":..., "mode": "exec"|"eval", "sched": 0, "fuel": 200000}
                                                   -> {"ok":..., "err":..., "errmsg":..., "stdout":..., "log_len":..., "globals": {...}}
  {"op": "compile", "text":..., "mode": ...}       -> {"ok": bool, "err": ...}
"""
import json
import sys


def main():
    verif = sys.argv[1]
    sys.path.insert(0, verif)
    from olverif import kit
    out = sys.stdout
    # programs print to sys.stdout: run_code redirects it; the protocol uses the real stream
    proto = sys.__stdout__
    ol = {}
    for line in sys.stdin:
        line = line.strip()
        if not line:
            continue
        try:
            job = json.loads(line)
            op = job.get("op")
            if op == "ping":
                res = {"ok": True, "version": list(sys.version_info[:3])}
            elif op == "convert":
                repo = job["repo"]
                if repo not in ol:
                    if sys.path[0] != repo:
                        sys.path.insert(0, repo)
                    import oneliner
                    from oneliner.config import Configs
                    ol[repo] = (oneliner, Configs)
                oneliner, Configs = ol[repo]
                import random
                c = Configs()
                c.unparser, c.expr_wrapper, c.if_style = job["cfg"]
                random.seed(job.get("seed", 0))
                try:
                    res = {"ok": True, "text": oneliner.convert_code_string(job["src"], configs=c)}
                except BaseException as e:
                    res = {"ok": False, "err": "%s: %s" % (type(e).__name__, str(e)[:200])}
            elif op == "run":
                k = kit.Kit(job.get("sched", 0), job.get("fuel", 200000))
                o = kit.run_code(job["text"], job["mode"], k, wall=job.get("wall", 20))
                res = {"ok": o["ok"], "err": o["err"], "errmsg": o["errmsg"], "stdout": o["stdout"],
                       "log": o["log"] if job.get("want_log") else None, "log_len": len(o["log"]),
                       "globals": o["globals"], "used": o["used"]}
            elif op == "check":
                # whole-program oracle inside this interpreter (host == runtime == this one)
                import os
                os.environ["OL_REPO"] = job["repo"]
                from olverif import oracle
                status, failures, orig = oracle.check_program(
                    job["src"], [tuple(c) for c in job["cfgs"]], job.get("sched", 0), job.get("seed", 0),
                    check_globals=job.get("check_globals", True), check_log=job.get("check_log", True),
                    check_stdout=job.get("check_stdout", True))
                res = {"ok": True, "status": status, "orig_err": orig.get("err"),
                       "failures": [[list(c), d] for (c, d, t) in failures]}
            elif op == "compile":
                try:
                    compile(job["text"], "<w>", job.get("mode", "exec"))
                    res = {"ok": True}
                except BaseException as e:
                    res = {"ok": False, "err": "%s: %s" % (type(e).__name__, str(e)[:200])}
            else:
                res = {"ok": False, "err": "unknown op %r" % (op,)}
        except BaseException as e:  # protocol-level trouble
            res = {"ok": False, "err": "worker: %s: %s" % (type(e).__name__, str(e)[:200]), "worker_error": True}
        proto.write(json.dumps(res, default=repr) + "\n")
        proto.flush()


if __name__ == "__main__":
    main()
