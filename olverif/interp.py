"""Interpreter discovery and persistent worker processes (JSON lines over pipes)."""
import json
import os
import select
import subprocess

from . import env

CANDIDATES = ["3.8", "3.9", "3.10", "3.11", "3.12", "3.13"]
HOST_MIN = (3, 10)


def discover():
    """{'3.8': '/root/.pyenv/versions/3.8.18/bin/python', ...} for the interpreters found"""
    found = {}
    roots = ["/root/.pyenv/versions"]
    for root in roots:
        if not os.path.isdir(root):
            continue
        for d in sorted(os.listdir(root)):
            parts = d.split(".")
            if len(parts) < 2 or not parts[0].isdigit():
                continue
            mm = "%s.%s" % (parts[0], parts[1])
            exe = os.path.join(root, d, "bin", "python")
            if mm in CANDIDATES and os.path.exists(exe) and mm not in found:
                found[mm] = exe
    return found


class Worker(object):
    def __init__(self, exe, tag):
        self.exe, self.tag = exe, tag
        envv = {k: v for k, v in os.environ.items() if k not in ("PYTHONPATH", "PYTHONHOME")}
        envv["PYTHONDONTWRITEBYTECODE"] = "1"
        envv["PYTHONHASHSEED"] = "0"
        envv["PYTHONWARNINGS"] = "ignore"
        envv["PYTHONUTF8"] = "1"
        self.p = subprocess.Popen([exe, os.path.join(env.VERIF, "olverif", "worker.py"), env.VERIF],
                                  stdin=subprocess.PIPE, stdout=subprocess.PIPE, stderr=subprocess.DEVNULL,
                                  env=envv, text=True, bufsize=1)
        r = self.call({"op": "ping"}, timeout=60)
        if not r.get("ok"):
            raise env.HarnessError("worker %s does not answer: %r" % (tag, r))
        self.version = tuple(r["version"])

    def call(self, job, timeout=90):
        try:
            self.p.stdin.write(json.dumps(job) + "\n")
            self.p.stdin.flush()
        except (BrokenPipeError, OSError):
            return {"ok": False, "err": "worker-died", "worker_error": True}
        ready, _, _ = select.select([self.p.stdout], [], [], timeout)
        if not ready:
            self.kill()
            return {"ok": False, "err": "worker-timeout", "worker_error": True}
        line = self.p.stdout.readline()
        if not line:
            return {"ok": False, "err": "worker-died", "worker_error": True}
        try:
            return json.loads(line)
        except ValueError:
            return {"ok": False, "err": "worker-garbage: %r" % line[:100], "worker_error": True}

    def alive(self):
        return self.p.poll() is None

    def kill(self):
        try:
            self.p.kill()
        except OSError:
            pass

    def close(self):
        try:
            self.p.stdin.close()
            self.p.wait(timeout=5)
        except Exception:
            self.kill()


class Pool(object):
    """lazily started workers, restarted when they die"""

    def __init__(self):
        self.found = discover()
        self.workers = {}

    def get(self, mm):
        w = self.workers.get(mm)
        if w is None or not w.alive():
            w = self.workers[mm] = Worker(self.found[mm], mm)
        return w

    def close(self):
        for w in self.workers.values():
            w.close()
        self.workers = {}

    def hosts(self):
        return [m for m in CANDIDATES if m in self.found and tuple(int(x) for x in m.split(".")) >= HOST_MIN]

    def runtimes(self):
        return [m for m in CANDIDATES if m in self.found]


def other_hosts(pool):
    """host interpreters other than the one running the checks"""
    import sys
    me = "%d.%d" % sys.version_info[:2]
    return [h for h in pool.hosts() if h != me]


def host_check(pool, host, src, cfgs, **flags):
    """run the whole-program oracle for `src` under another host interpreter.
    returns (status, failures) like oracle.check_program, or raises HarnessError"""
    job = {"op": "check", "repo": env.REPO, "src": src, "cfgs": [list(c) for c in cfgs]}
    job.update(flags)
    r = pool.get(host).call(job, timeout=180)
    if r.get("worker_error") or not r.get("ok"):
        raise env.HarnessError("host worker %s: %s" % (host, r.get("err")))
    return r["status"], [(tuple(c), d, None) for c, d in r["failures"]]
