"""Thin layer over Hypothesis: seeded, database-free, quiet, with a bounded shrink phase and
the failing case handed back as data instead of an exception."""
import hypothesis
from hypothesis import HealthCheck, Phase, Verbosity, given, settings
from hypothesis import strategies as st  # noqa: F401  (re-exported)

from . import env


import time
import warnings

warnings.filterwarnings("ignore", category=hypothesis.errors.HypothesisWarning)


class _Fail(Exception):
    pass


def search(strategy, body, seed, max_examples, shrink_calls=300, key=repr, shrink_seconds=40):
    """Run `body(case)` on `max_examples` generated cases.

    body returns None (property holds) or a violation dict. Returns (calls, violation|None)
    where the violation is the *shrunk* one. After the first failure at most `shrink_calls`
    further executions of the oracle are spent on shrinking (cases beyond that budget are
    answered 'passes' unless they were already seen failing, which keeps Hypothesis' final
    replay consistent)."""
    state = {"calls": 0, "after_fail": 0, "best": None, "best_len": 0, "seen_fail": {}, "t_fail": 0.0}

    @hypothesis.seed(seed)
    @settings(max_examples=max_examples, database=None, deadline=None, derandomize=False,
              report_multiple_bugs=False, phases=(Phase.generate, Phase.shrink),
              suppress_health_check=list(HealthCheck), verbosity=Verbosity.quiet,
              print_blob=False)
    @given(strategy)
    def test(case):
        failed = False
        k = None
        if state["best"] is not None:
            k = key(case)
            if k in state["seen_fail"]:
                failed = True
            elif state["after_fail"] >= shrink_calls or time.time() - state["t_fail"] > shrink_seconds:
                # oracle budget for shrinking used up: unseen cases are answered "passes"
                # (consistent on replay); the wall-clock bound below ends the shrink phase
                return
            else:
                state["after_fail"] += 1
        if not failed:
            state["calls"] += 1
            v = body(case)
            if v is not None:
                if k is None:
                    k = key(case)
                state["seen_fail"][k] = v
                if state["best"] is None:
                    state["t_fail"] = time.time()
                if state["best"] is None or len(k) <= state["best_len"]:
                    state["best"], state["best_len"] = v, len(k)
                failed = True
        if failed:
            raise _Fail()  # the only raise site: Hypothesis keys failures by location

    # Hypothesis' own cap on the shrink phase is 300 s; ours is shrink_seconds
    try:
        from hypothesis.internal.conjecture import engine as _engine
        saved = _engine.MAX_SHRINKING_SECONDS
        _engine.MAX_SHRINKING_SECONDS = shrink_seconds
    except Exception:  # pragma: no cover - internal name moved: keep Hypothesis' default
        _engine = None
    try:
        test()
    except _Fail:
        return state["calls"], state["best"]
    except hypothesis.errors.HypothesisException as e:
        if state["best"] is not None:
            # a failure was found but Hypothesis could not replay it consistently
            # (state shared between cases in the code under test): report what was seen
            return state["calls"], state["best"]
        raise env.HarnessError("hypothesis: %s: %s" % (type(e).__name__, e))
    finally:
        if _engine is not None:
            _engine.MAX_SHRINKING_SECONDS = saved
    return state["calls"], None
