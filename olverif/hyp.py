"""Thin layer over Hypothesis: seeded, database-free, quiet, with a bounded shrink phase and
the failing case handed back as data instead of an exception."""
import hypothesis
from hypothesis import HealthCheck, Phase, Verbosity, given, settings
from hypothesis import strategies as st  # noqa: F401  (re-exported)

from . import env


import warnings

warnings.filterwarnings("ignore", category=hypothesis.errors.HypothesisWarning)


class _Fail(Exception):
    pass


def search(strategy, body, seed, max_examples, shrink_calls=400, key=repr):
    """Run `body(case)` on `max_examples` generated cases.

    body returns None (property holds) or a violation dict. Returns (calls, violation|None)
    where the violation is the *shrunk* one. After the first failure at most `shrink_calls`
    further executions of the oracle are spent on shrinking (cases beyond that budget are
    answered 'passes' unless they were already seen failing, which keeps Hypothesis' final
    replay consistent)."""
    state = {"calls": 0, "after_fail": 0, "best": None, "seen_fail": {}}

    @hypothesis.seed(seed)
    @settings(max_examples=max_examples, database=None, deadline=None, derandomize=False,
              report_multiple_bugs=False, phases=(Phase.generate, Phase.shrink),
              suppress_health_check=list(HealthCheck), verbosity=Verbosity.quiet,
              print_blob=False)
    @given(strategy)
    def test(case):
        failed = False
        k = None
        if state["best"] is not None:
            k = key(case)
            if k in state["seen_fail"]:
                state["best"] = state["seen_fail"][k]
                failed = True
            elif state["after_fail"] >= shrink_calls:
                return
            else:
                state["after_fail"] += 1
        if not failed:
            state["calls"] += 1
            v = body(case)
            if v is not None:
                if k is None:
                    k = key(case)
                state["seen_fail"][k] = v
                state["best"] = v
                failed = True
        if failed:
            raise _Fail()  # the only raise site: Hypothesis keys failures by location

    try:
        test()
    except _Fail:
        return state["calls"], state["best"]
    except hypothesis.errors.HypothesisException as e:
        raise env.HarnessError("hypothesis: %s: %s" % (type(e).__name__, e))
    return state["calls"], None
