"""Whole-program oracle: source executed by CPython vs converted expression evaluated."""
from . import env
from .kit import Kit, run_code, compare_obs


def run_original(src, sched=0, fuel=200000, extra_ns=None, wall=20):
    return run_code(src, "exec", Kit(sched, fuel), wall=wall, extra_ns=extra_ns)


def check_program(src, cfgs=env.ALL_CFGS, sched=0, seed=0, check_globals=True,
                  check_log=True, check_stdout=True, extra_ns=None, orig=None,
                  stop_at_first=True, extra_check=None):
    """Returns (status, failures, orig) where status is
         'orig-raises'   the source program is outside the domain (raises / runs away)
         'ok'            every configuration agrees
         'fail'          failures = [(cfg, [diffs], text_or_None), ...]
    """
    if orig is None:
        orig = run_original(src, sched, extra_ns=extra_ns() if callable(extra_ns) else extra_ns)
    if not orig["ok"]:
        return "orig-raises", [], orig
    failures = []
    for cfg in cfgs:
        cfg = tuple(cfg)
        try:
            text = env.convert(src, cfg, seed)
        except RecursionError as e:
            failures.append((cfg, ["conversion raised RecursionError"], None))
            if stop_at_first:
                break
            continue
        except BaseException as e:
            failures.append((cfg, ["conversion raised %s: %s" % (type(e).__name__, str(e)[:200])], None))
            if stop_at_first:
                break
            continue
        kit = Kit(sched, fuel=10 * orig["used"] + 200)
        conv = run_code(text, "eval", kit, extra_ns=extra_ns() if callable(extra_ns) else extra_ns,
                        filename="<converted>")
        diffs = compare_obs(orig, conv, check_globals, check_log, check_stdout)
        if not diffs and extra_check is not None:
            diffs = extra_check(orig, conv) or []
        if diffs:
            failures.append((cfg, diffs, text))
            if stop_at_first:
                break
    return ("fail" if failures else "ok"), failures, orig


def program_payload(src, cfg, sched=0, seed=0, **flags):
    p = {"kind": "program", "src": src, "cfg": list(cfg), "sched": sched, "seed": seed}
    p.update(flags)
    return p


def replay_program(payload, extra_ns=None, extra_check=None):
    """Generic replay of a {"kind":"program"} payload. Returns list of diffs (empty=passes).
    A witness whose *original* raises is reported as such (the witness is then useless)."""
    cfgs = [tuple(payload["cfg"])] if payload.get("cfg") else env.ALL_CFGS
    status, failures, orig = check_program(
        payload["src"], cfgs, payload.get("sched", 0), payload.get("seed", 0),
        check_globals=payload.get("check_globals", True),
        check_log=payload.get("check_log", True),
        check_stdout=payload.get("check_stdout", True),
        extra_ns=extra_ns, extra_check=extra_check)
    if status == "orig-raises":
        return ["witness is outside the domain: original raises %s %s" % (orig["err"], orig["errmsg"])]
    out = []
    for cfg, diffs, text in failures:
        out.extend("[%s] %s" % (env.cfg_name(cfg), d) for d in diffs)
    return out


def reduce_violation(v, **kw):
    """statement-level delta debugging of a {"kind":"program"} violation (best effort)"""
    from . import shrink
    p = v["payload"]
    if p.get("kind") != "program" or not p.get("cfg"):
        return v
    try:
        small = shrink.reduce_program(p["src"], p["cfg"], max_rounds=80, sched=p.get("sched", 0),
                                      seed=p.get("seed", 0),
                                      check_globals=p.get("check_globals", True),
                                      check_log=p.get("check_log", True),
                                      check_stdout=p.get("check_stdout", True), **kw)
    except BaseException:
        return v
    if small != p["src"]:
        status, failures, _ = check_program(small, [tuple(p["cfg"])], p.get("sched", 0), p.get("seed", 0),
                                            check_globals=p.get("check_globals", True),
                                            check_log=p.get("check_log", True),
                                            check_stdout=p.get("check_stdout", True), **kw)
        if status == "fail":
            v = dict(v, payload=dict(p, src=small, src_before_reduction=p["src"]), diffs=failures[0][1],
                     diffs_before_reduction=v["diffs"])
    return v
