import sys

from .runner import main

sys.exit(main(sys.argv[1:]))
