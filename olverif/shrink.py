"""Statement-level delta debugging for whole-program failures (source text based).

A candidate is kept when (a) it compiles, (b) the original still runs exception-free,
(c) the same divergence class persists under the same configuration."""
from . import env
from .oracle import check_program


def _blocks(lines):
    """(start, end) line ranges: a line plus everything indented deeper below it"""
    out = []
    for i, l in enumerate(lines):
        if not l.strip():
            continue
        ind = len(l) - len(l.lstrip())
        j = i + 1
        while j < len(lines) and (not lines[j].strip() or len(lines[j]) - len(lines[j].lstrip()) > ind):
            j += 1
        out.append((i, j))
    return out


def failure_class(diffs):
    d = diffs[0]
    for cut in (" name '", ": '", " at index", ": "):
        if cut in d:
            return d.split(cut)[0]
    return d[:40]


def reduce_program(src, cfg, max_rounds=6, **kw):
    def fails(text):
        try:
            compile(text, "<r>", "exec")
        except SyntaxError:
            return None
        status, failures, _ = check_program(text, [tuple(cfg)], **kw)
        if status != "fail":
            return None
        return failure_class(failures[0][1])

    return reduce_text(src, fails, max_rounds)


def reduce_text(src, fails, max_rounds=200, max_seconds=30):
    """fails(text) -> failure class (hashable, not None) or None; keeps the class constant"""
    import time
    deadline = time.time() + max_seconds
    want = fails(src)
    if want is None:
        return src
    lines = src.rstrip("\n").split("\n")
    for _ in range(max_rounds):
        if time.time() > deadline:
            break
        changed = False
        # larger blocks first
        for (i, j) in sorted(_blocks(lines), key=lambda r: r[0] - r[1]):
            if j > len(lines) or i >= len(lines):
                continue
            cand = lines[:i] + lines[j:]
            if not cand:
                continue
            if fails("\n".join(cand) + "\n") == want:
                lines = cand
                changed = True
                break
        if not changed:
            # try unwrapping: delete a header line and dedent its body
            for (i, j) in _blocks(lines):
                if j - i < 2:
                    continue
                ind = len(lines[i]) - len(lines[i].lstrip())
                body = lines[i + 1:j]
                bind = min(len(b) - len(b.lstrip()) for b in body if b.strip())
                cand = lines[:i] + [" " * ind + b[bind:] for b in body] + lines[j:]
                if fails("\n".join(cand) + "\n") == want:
                    lines = cand
                    changed = True
                    break
        if not changed:
            break
    return "\n".join(lines) + "\n"
