"""Host dimension: run whole-program cases under the other host interpreters of the image
(3.10, 3.11, 3.13 when the checks run on 3.12) through persistent worker processes."""
from . import env, interp
from .runner import new_part, key_hash


def host_shard(item):
    """item = (host, cases, flags, label); cases = [(src, [cfg, ...]), ...]"""
    host, cases, flags, label = item
    part = new_part()
    pl = interp.Pool()
    try:
        if host not in pl.found:
            part["discarded"]["host-%s-not-found" % host] += len(cases)
            return part
        for src, cfgs in cases:
            status, failures = interp.host_check(pl, host, src, cfgs, **flags)
            if status == "orig-raises":
                part["discarded"]["original-raises-on-host-%s" % host] += 1
                continue
            part["evaluations"] += 1
            part["classes"]["host:" + host] += 1
            part["nontrivial"].add(key_hash(host, src))
            if status == "fail" and len(part["violations"]) < 3:
                cfg, diffs, _ = failures[0]
                payload = {"kind": "program-host", "src": src, "cfg": list(cfg), "host": host}
                payload.update(flags)
                part["violations"].append({"payload": payload, "diffs": diffs,
                                           "what": "%s on host %s (%s)" % (label, host, env.cfg_name(cfg))})
    finally:
        pl.close()
    return part


def replay(payload):
    pl = interp.Pool()
    try:
        flags = {k: payload[k] for k in ("check_globals", "check_log", "check_stdout", "sched") if k in payload}
        status, failures = interp.host_check(pl, payload["host"], payload["src"], [tuple(payload["cfg"])], **flags)
        if status == "orig-raises":
            return ["witness is outside the domain on host %s: the original raises" % payload["host"]]
        return [d for (c, ds, t) in failures for d in ds]
    finally:
        pl.close()


def available_other_hosts():
    import sys
    me = "%d.%d" % sys.version_info[:2]
    found = interp.discover()
    return [h for h in interp.CANDIDATES if h in found and h != me
            and tuple(int(x) for x in h.split(".")) >= interp.HOST_MIN]


def inline_host_checks(part, cases, host, flags, label):
    """used by Hypothesis shards: check the collected (src, cfgs) cases under one other host"""
    sub = host_shard((host, cases, flags, label))
    part["evaluations"] += sub["evaluations"]
    part["nontrivial"] |= sub["nontrivial"]
    part["classes"].update(sub["classes"])
    part["discarded"].update(sub["discarded"])
    part["violations"] += sub["violations"]
