"""Environment: locate the code under test, enumerate configurations, seeds, parallel map."""
import hashlib
import itertools
import os
import random
import sys

VERIF = os.path.dirname(os.path.dirname(os.path.abspath(__file__)))
REPO = os.path.abspath(os.environ.get("OL_REPO", "/repo"))
NPROC = int(os.environ.get("OLVERIF_NPROC", "0")) or min(16, os.cpu_count() or 1)

UNPARSERS = ("ast.unparse", "oneliner")
WRAPPERS = ("chain_call", "list")
IF_STYLES = ("if_expr", "short_circuit")
DEFAULT_CFG = ("ast.unparse", "chain_call", "if_expr")
ALL_CFGS = tuple(itertools.product(UNPARSERS, WRAPPERS, IF_STYLES))
# the 4 combinations that change the *shape* of the lowered tree (the unparser only prints it)
SEMANTIC_CFGS = tuple(itertools.product(WRAPPERS, IF_STYLES))


class HarnessError(Exception):
    """Trouble in the machinery itself: exit 2, never a violation."""


_oneliner = None


def oneliner():
    """Import the package from the tree under test (never from site-packages)."""
    global _oneliner
    if _oneliner is None:
        if sys.path[0] != REPO:
            sys.path.insert(0, REPO)
        try:
            import oneliner as m
            import oneliner.convert  # noqa: F401
            import oneliner.expr_unparse  # noqa: F401
            import oneliner.config  # noqa: F401
        except BaseException as e:  # pragma: no cover
            raise HarnessError("cannot import oneliner from %s: %r" % (REPO, e))
        got = os.path.realpath(m.__file__)
        if not got.startswith(os.path.realpath(REPO) + os.sep):
            raise HarnessError("oneliner imported from %s, expected %s" % (got, REPO))
        _oneliner = m
    return _oneliner


def make_cfg(key):
    """A Configs object carrying exactly `key`. All three options are always set, so the
    result does not depend on what earlier calls did to other objects."""
    from oneliner.config import Configs

    c = Configs()
    c.unparser, c.expr_wrapper, c.if_style = key
    return c


def convert(src, key=DEFAULT_CFG, seed=0):
    """convert_code_string with pinned fresh-name choice (byte-for-byte replayable)."""
    ol = oneliner()
    random.seed(seed)
    return ol.convert_code_string(src, configs=make_cfg(key))


def cfg_name(key):
    return "%s/%s/%s" % tuple(key)


def sub_seed(seed, *parts):
    h = hashlib.sha256(repr((int(seed),) + tuple(parts)).encode()).digest()
    return int.from_bytes(h[:6], "big")


def tier_seed():
    try:
        return int(os.environ.get("VERIF_SEED", "1"))
    except ValueError:
        return 1


# --------------------------------------------------------------------------- parallel map

def _init_worker():
    # each worker: own process group member, default SIGINT, import code under test once
    oneliner()


def pmap(func, items, nproc=None, chunksize=1):
    """Ordered parallel map over picklable items with fork workers. func must be a
    module-level function. Exceptions in func propagate as HarnessError."""
    items = list(items)
    nproc = min(nproc or NPROC, max(1, len(items)))
    if nproc <= 1 or os.environ.get("OLVERIF_SERIAL"):
        oneliner()
        return [func(x) for x in items]
    import multiprocessing as mp

    ctx = mp.get_context("fork")
    with ctx.Pool(nproc, initializer=_init_worker) as pool:
        return pool.map(func, items, chunksize)


def shards(n):
    return list(range(n))
