"""Property-based verification machinery for yunline/Oneliner-Py (see /verif/DESIGN.md)."""
