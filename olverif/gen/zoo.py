"""A deterministic 'syntax zoo': hand-written programs, each dense with the rarely drawn forms of
one construct family. They complement the random generator: whatever is in here is exercised on
every run under all 8 configurations (C01), on the other hosts (C01), for well-formedness (C02),
in histories (C10) and - the 3.8-valid ones - on every runtime (C15).
Every program prints what it computes; none reads input, the clock or an unseeded RNG.
"""

ZOO = {}
ZOO38 = set()   # names whose source is valid on Python 3.8


def _add(name, src, py38=True):
    ZOO[name] = src
    if py38:
        ZOO38.add(name)


_add("zoo_assign_forms", '''
a = b = c = [0]
a.append(1)
print(a is b, b is c, c)
(d, e), f = g = [1, 2], 3
print(d, e, f, g)
h, *i = j, = k = ((5,),)
print(h, i, j, k)
[l, [m, *n], *o] = p = (1, (2, 3, 4), 5, 6)
print(l, m, n, o, p)
q = r, s = t = "xy"
print(q, r, s, t)
u = ()
v = u = u + (1,)
print(u, v)
w: int = 5
x: "str"
y: list = []
y[:] = w, w
print(w, y)
class Box:
    pass
z = Box()
z.a = z.b = [7]
z.a += [8]
z.c, z.d = z.b
print(z.a, z.b, z.c, z.d, z.a is z.b)
dd = {}
dd["k"] = dd["j"] = dd
print(sorted(dd), dd["k"] is dd)
ll = [0, 1, 2, 3, 4, 5]
ll[1:3] = ll[4:] = ["s"]
print(ll)
ll[::2] = range(len(ll[::2]))
ll[-1:] = ()
ll[:0] = [9]
print(ll)
(mm := 3)
nn = (oo := mm + 1) * oo
print(mm, nn, oo)
''')

_add("zoo_augassign_forms", '''
x = 7
x += 1; x -= 2; x *= 3; x //= 4; x %= 3; x **= 2; x <<= 3; x >>= 1; x |= 8; x &= 12; x ^= 5
print(x)
y = 7.0
y /= 2
y //= 1
print(y)
s = "ab"
s += "c" * 2
s *= 2
s %= ()
print(s)
l = [1]
m = l
l += (2,)
l *= 2
print(l, m is l)
t = (1,)
u = t
t += (2,)
print(t, u)
st = {1}
su = st
st |= {2, 5}; print(sorted(st)); st ^= {1, 3}; print(sorted(st)); st &= {2, 3, 9}; print(sorted(st)); st -= {9, 2}
print(sorted(st), su is st)
d = {"a": 1}
d.update({"b": 2})
d["a"] += 10
d["c"] = d.get("c", 0) + 1
print(sorted(d.items()))
class V:
    def __init__(self, n):
        self.n = n
    def __iadd__(self, o):
        self.n += o
        return self
    def __mul__(self, o):
        return V(self.n * o)
    def __matmul__(self, o):
        return V(self.n + 100 * o)
v = V(1)
w = v
v += 2
v *= 3
v @= 1
print(v.n, w.n, v is w)
class Holder:
    items = [1]
    count = 0
h = Holder()
h.items += [2]
h.count += 1
Holder.count -= 5
print(h.items, Holder.items, h.count, Holder.count)
grid = [[0, 0], [0, 0]]
grid[1][0] += 5
grid[0][-1] -= 1
grid[0] += [9]
print(grid)
i = 0
data = [10, 20, 30]
data[i] += (i := i + 1)
print(data, i)
def bump():
    global x
    x += 100
    return x
x += bump()
print(x)
''')

_add("zoo_calls", '''
def f(*a, **k):
    return a, sorted(k.items())
p = [1, 2]
q = {"x": 1}
print(f(), f(*p), f(**q), f(*p, *p, 3, **q, y=2), f(*p, y=2, **q), f(0, *p, x=5))
print(f(*[i for i in range(2)], *(i for i in range(2))), f(*"ab", sep=f)[0])
print(f(f)[0][0] is f, f(lambda: 1)[0][0](), f(x=lambda z=2: z)[1][0][1]())
g = lambda *a, k=3, **kw: (a, k, kw)
print(g(1, 2, k=4, j=5), g(*p, **q), (lambda: (lambda: (lambda: 7)())())())
print(max(p, key=lambda v: -v), sorted(p, key=lambda v: -v, reverse=True), min((v for v in p), default=0))
print(sum(v for v in p), sum((v for v in p), 10), list(map(lambda a, b: a + b, p, p)))
print("{}-{x}".format(1, x=2), "%s %r" % ("a", "b"), "{0[0]}{1.real}".format(p, 3))
print(print is print, print(end=""), print("a", "b", sep="", end="!\\n"))
class C:
    def m(self, a=1, /, b=2, *, c=3):
        return (a, b, c)
    @staticmethod
    def s(*a):
        return a
    @classmethod
    def k(cls, **kw):
        return cls.__name__, kw
    def __call__(self, *a, **k):
        return ("called", a, k)
c = C()
print(c.m(), c.m(9), c.m(9, b=8, c=7), C.m(c, 5), C.s(1, 2), c.s(), C.k(z=1), c.k())
print(c(), c(1, x=2), C()(*p, **q), getattr(c, "m")(4), c.m.__func__(c, 6))
print([h(2) for h in (abs, float, str, lambda v: v * 2)], (lambda f, x: f(f(x)))(lambda v: v + 1, 0))
''')

_add("zoo_functions", '''
def a():
    pass
def b():
    return
def c():
    return 1, 2
def d(x, y=[], *z, k, j=2, **m):
    y.append(x)
    return x, tuple(y), z, k, j, sorted(m)
def e(x, /, y, *, z):
    return x, y, z
print(a(), b(), c(), d(1, k=0), d(2, k=0), d(3, [9], 4, k=0, q=1), e(1, 2, z=3), e(1, y=2, z=3))
def outer():
    n = 0
    def inc(by=1):
        nonlocal n
        n += by
        return n
    def get():
        return n
    def reset():
        nonlocal n
        n = 0
    return inc, get, reset
inc, get, reset = outer()
print(inc(), inc(5), get(), reset(), get(), inc())
def fib(n, memo={}):
    if n in memo:
        return memo[n]
    if n < 2:
        return n
    memo[n] = fib(n - 1) + fib(n - 2)
    return memo[n]
print(fib(20), fib.__defaults__[0][10])
def even(n):
    return True if n == 0 else odd(n - 1)
def odd(n):
    return False if n == 0 else even(n - 1)
print(even(10), odd(7))
def deco(tag):
    def wrap(fn):
        def inner(*a, **k):
            return (tag, fn(*a, **k))
        inner.tag = tag
        return inner
    return wrap
@deco("outer")
@deco("inner")
def h(x):
    return x
print(h(1), h.tag)
def use_before_def():
    return later() + 1
def later():
    return 41
print(use_before_def())
def shadow(print=print, len=len):
    return len("abc")
print(shadow(), shadow(len=lambda s: -1))
def many_returns(x):
    if x < 0:
        return "neg"
    elif x == 0:
        return
    for i in range(x):
        if i == 2:
            return "two"
    else:
        return "small"
print(many_returns(-1), many_returns(0), many_returns(1), many_returns(5))
def closure_in_loop():
    fs = []
    for i in range(3):
        def g(i=i):
            return i
        fs.append(g)
        fs.append(lambda: i)
    return [f() for f in fs]
print(closure_in_loop())
def gen_like():
    acc = []
    def push(v):
        acc.append(v)
        return v
    return [push(i) for i in range(3) if push(-i) <= 0], acc
print(gen_like())
''')

_add("zoo_classes", '''
class Base:
    registry = []
    def __init_subclass__(cls, tag=None, **kw):
        super().__init_subclass__(**kw)
        Base.registry.append((cls.__name__, tag))
    def __init__(self, v=0):
        self.v = v
    def who(self):
        return "Base"
    def __repr__(self):
        return "%s(%r)" % (type(self).__name__, self.v)
    def __eq__(self, o):
        return type(o) is type(self) and o.v == self.v
    def __hash__(self):
        return hash(self.v)
    def __lt__(self, o):
        return self.v < o.v
    def __len__(self):
        return self.v
    def __bool__(self):
        return self.v != 13
    def __getitem__(self, k):
        return (self.v, k)
    def __contains__(self, k):
        return k == self.v
    def __iter__(self):
        return iter(range(self.v))
class Mixin:
    def who(self):
        return "Mixin>" + super().who()
class Child(Mixin, Base, tag="c"):
    kind = "child"
    def __init__(self, v=1, extra=None):
        super().__init__(v)
        self.extra = extra
    def who(self):
        return "Child>" + super().who()
    @property
    def double(self):
        return self.v * 2
    @double.setter
    def double(self, x):
        self.v = x // 2
    @double.deleter
    def double(self):
        self.v = -1
    @classmethod
    def make(cls, *a):
        return cls(*a)
    @staticmethod
    def helper(x):
        return x + 1
class Grand(Child, tag="g"):
    def who(self):
        return "Grand>" + super(Grand, self).who() + "|" + super(Child, self).who()
c = Child.make(3, "e")
g = Grand(5)
c.double = 10
print(Base.registry, c, g, c.who(), g.who(), c.double, Child.helper(1), g.helper(2), Grand.make().v)
print(c == Child(5), c != Child(6), c < g, sorted([g, c]), len(g), bool(Child(13)), c[1:2], 5 in g, list(Child(2)), {c: 1}[Child(5)])
print([k.__name__ for k in Grand.__mro__], isinstance(g, Mixin), issubclass(Grand, Base), Grand.kind, hasattr(g, "extra"))
class Meta(type):
    def __new__(m, name, bases, ns, **kw):
        cls = super().__new__(m, name, bases, ns)
        cls.created_by = m.__name__
        return cls
    def __call__(cls, *a):
        obj = super().__call__(*a)
        obj.via = "meta"
        return obj
    def describe(cls):
        return "class " + cls.__name__
class WithMeta(metaclass=Meta):
    def __init__(self, x=0):
        self.x = x
class SubMeta(WithMeta):
    pass
w = SubMeta(4)
print(WithMeta.created_by, SubMeta.describe(), w.via, w.x, type(SubMeta).__name__)
class Outer:
    level = 1
    class Inner:
        level = 2
        class Deep:
            level = 3
            def show(self):
                return (Outer.level, Outer.Inner.level, self.level)
    inner = Inner()
    total = sum([1, 2, 3])
    squares = [i * i for i in range(3)]
    if total > 5:
        big = True
    else:
        big = False
    for _i in range(2):
        level += _i
    del_me = None
print(Outer.Inner.Deep().show(), Outer.total, Outer.squares, Outer.big, Outer.level, Outer._i)
def factory(base, n):
    class Made(base):
        count = n
        def get(self):
            return self.count + n
    Made.__name__ = "Made%d" % n
    return Made
M1 = factory(object, 1)
M2 = factory(M1, 2)
print(M1().get(), M2().get(), M2.__mro__[1] is M1)
''')

_add("zoo_control_flow", '''
out = []
for i in range(6):
    if i == 1:
        continue
    elif i == 4:
        break
    out.append(i)
else:
    out.append("else1")
print(out)
out = []
i = 0
while i < 5:
    i += 1
    if i % 2:
        continue
    for j in range(i):
        if j == 2:
            break
        out.append((i, j))
    else:
        out.append(("noinnerbreak", i))
        continue
    out.append(("broke", i))
else:
    out.append("else2")
print(out)
def search(grid, want):
    for r, row in enumerate(grid):
        for c, v in enumerate(row):
            if v == want:
                break
        else:
            continue
        break
    else:
        return None
    return (r, c)
print(search([[1, 2], [3, 4]], 3), search([[1]], 9), search([], 0))
def classify(n):
    if n < 0:
        r = "neg"
    elif n == 0:
        r = "zero"
    elif n < 10:
        if n % 2:
            r = "odd"
        else:
            r = "even"
    else:
        r = "big"
    return r
print([classify(n) for n in (-1, 0, 3, 4, 11)])
x = 0
if x:
    pass
elif not x:
    x = ""
if x == "":
    x = []
else:
    x = None
if x is not None and not x:
    x = {}
print(x)
n = 0
while True:
    n += 1
    while True:
        n += 10
        if n > 30:
            break
    if n > 60:
        break
print(n)
def nested_returns(a):
    for x in a:
        while x:
            x -= 1
            if x == 2:
                return "found2"
            for y in range(x):
                if y == 5:
                    return ("y5", x)
        else:
            if x == 0 and len(a) == 1:
                return "single"
    return "none"
print(nested_returns([1]), nested_returns([4, 1]), nested_returns([9]), nested_returns([]))
total = 0
for a in range(3):
    for b in range(3):
        for c in range(3):
            if c == 2:
                continue
            if b == 2:
                break
            total += 1
        else:
            total += 100
    total += 1000
print(total)
''')

_add("zoo_comprehensions_lambdas", '''
xs = [3, 1, 2]
print([x * 2 for x in xs], [x for x in xs if x > 1 if x < 3], [(x, y) for x in xs for y in range(x) if y % 2])
print({x: x ** 2 for x in xs}, {x % 2 for x in xs}, sorted({(x, y): x * y for x in xs for y in xs if x < y}.items()))
print(list(x + 1 for x in xs), sum(x for x in xs if x), tuple(tuple(y for y in range(x)) for x in xs))
print([[y for y in range(x)] for x in xs], [x for row in [[1, 2], [3]] for x in row], [[r[c] for r in [[1, 2], [3, 4]]] for c in range(2)])
k = 10
print([k + x for x in xs], [x for x in xs if (k := x) > 0], k, [(lambda v: v + k)(x) for x in xs])
fs = [lambda: x for x in xs]
print([f() for f in fs], [(lambda x=x: x)() for x in xs])
def scoped():
    total = 0
    acc = [(total := total + x) for x in xs]
    pairs = {a: b for a, b in zip(xs, acc)}
    nested = [[a * b for b in xs if b != a] for a in xs if a != 2]
    return total, acc, sorted(pairs.items()), nested
print(scoped())
class K:
    base = [1, 2, 3]
    doubled = [b * 2 for b in base]
    firsts = [row[0] for row in [base, doubled]]
    as_dict = {i: v for i, v in enumerate(base)}
print(K.doubled, K.firsts, K.as_dict)
compose = lambda *fs: (lambda x: x) if not fs else (lambda x: fs[0](compose(*fs[1:])(x)))
print(compose(lambda v: v + 1, lambda v: v * 2)(5), (lambda a, b=2, *c, d, e=4, **f: (a, b, c, d, e, f))(1, d=3))
print((lambda: (yield_ := 5) + yield_)(), (lambda x: x if x else -x)(0), (lambda: [i for i in range(3)])(), (lambda x: (lambda y: x + y))(1)(2))
print(sorted(xs, key=lambda v: (v % 2, -v)), list(filter(lambda v: v & 1, xs)), list(map(lambda p: p[0] * p[1], zip(xs, xs))))
print(any(x > 2 for x in xs), all(x for x in xs), next((x for x in xs if x < 3), None), max(((x, -x) for x in xs), key=lambda p: p[1]))
g = (x * 10 for x in xs)
first = next(g)
print(first, list(g), list(g))
matrix = [[1, 2, 3], [4, 5, 6]]
print([list(r) for r in zip(*matrix)], [sum(r) for r in matrix], {r[0]: r[1:] for r in matrix})
print([x for x in range(20) if x % 2 == 0 if x % 3 == 0], [x if x % 2 else -x for x in range(5)], [*range(3), *[x for x in "ab"]])
''')

_add("zoo_strings_fstrings", '''
name, n, pi, d = "wörld", 42, 3.14159, {"k": [1, 2]}
print(f"hello {name}", f"{n:5d}|{n:<5}|{n:^5}|{n:05}|{n:x}|{n:#b}|{n:,}|{n:+}", f"{pi:.2f}|{pi:10.3e}|{pi:%}")
print(f"{name!r}|{name!s}|{name!a}|{name!r:>12}|{n!r:3}", f"{{literal}} {n}{{}}", f"{'quoted'} {n}")
w, p = 8, 3
print(f"{pi:{w}.{p}f}|{n:{w}}|{name:*^{w + 4}}|{n:{'0'}{'>'}{w}}", f"{d['k'][0]}{d['k'][-1]}", f"{n + 1}{n * 2}{n // 5}")
print(f"{n if n > 1 else 0} {[x for x in range(3)]} { {1: 2}[1] } {(lambda v: v + 1)(n)} {', '.join(str(i) for i in range(3))}")
print(f"{n}" f"{name}" "plain" f"{pi:.1f}", "a" "b" 'c', f"""triple {n}
second line {name}""", f'{n}\\t{name}\\n'.strip())
print(f"{n=}", f"{n = }", f"{n + 1 = }", f"{name=!r:>10}", f"{pi=:.2f}")
print("%d %s %r %5.1f %-4d| %%" % (n, name, name, pi, n), "%(a)s-%(b)03d" % {"a": "x", "b": 7}, "{:>6}|{!r}|{:{}}".format(n, name, n, 4))
s = "Hello, World"
print(s[0], s[-1], s[1:4], s[::-1], s[::2], s[-5:], s[:-7:-1], s.split(", "), s.lower().count("l"), s.replace("l", "L", 2))
print("a\\tb\\\\c\\'d\\"e\\x41\\u00e9\\N{BULLET}", r"raw\\n{n}", b"bytes\\x00\\xff", rb"raw\\x", "\\u4e16\\u754c", len("\\U0001F600"))
print(repr("it's"), repr('say "hi"'), repr("both ' and \\""), str(b"x"), "é".encode("utf8"), "\\n".join(["l1", "l2"]))
empty = ""
print(f"", f"{empty}", f"{empty!r}", f"{empty:>3}|", not f"", f"{''}" == "", f"{n}" + f"{n}", f"{n}" * 2)
width = 6
rows = [("a", 1), ("bb", 22)]
print("\\n".join(f"{k:<{width}}{v:>{width}}" for k, v in rows))
print(f"{'nested ' + f'{n:>4}' + ' end'}")
''')

_add("zoo_fstrings_pep701", '''
n, d = 42, {"k": 1}
print(f"{f'{f"{n}"}'}", f"{d["k"]}", f'{'same'}', f"{"\\n".join(["a", "b"])!r}", f"{n:{"0"}>{4}}")
''', py38=False)

_add("zoo_scopes", '''
x = "global"
def read():
    return x
def shadow():
    x = "local"
    return x
def modify():
    global x
    x = x + "!"
    return x
print(read(), shadow(), modify(), read())
def outer():
    x = "outer"
    def inner():
        return x
    def rebinding():
        nonlocal x
        x = x + "+"
        return x
    def using_global():
        global x
        return x
    class InFunc:
        y = x
        def m(self):
            return x
        x = "class"
        z = x
    return inner(), rebinding(), inner(), using_global(), InFunc.y, InFunc().m(), InFunc.z, InFunc.x
print(outer())
counter = 0
def three_levels():
    a = 1
    def mid():
        b = a + 1
        def low():
            nonlocal a, b
            global counter
            a, b, counter = a + 10, b + 10, counter + 1
            return a, b
        return low(), b
    return mid(), a
print(three_levels(), counter)
class Config:
    debug = False
    level = 1 if debug else 2
    names = ["a", "b"]
    upper = [s.upper() for s in names]
    total = len(names) + level
    def get(self):
        return self.level, Config.total
    level += 1
print(Config.level, Config.upper, Config.total, Config().get())
value = 1
class UsesGlobal:
    value = value + 1
    again = value
    def method(self):
        return value
print(UsesGlobal.value, UsesGlobal.again, UsesGlobal().method())
def defaults_scope():
    v = "enclosing"
    def f(a=v, *, b=v + "!"):
        v = "own"
        return a, b, v
    g = lambda a=v: (a, v)
    v = "changed"
    return f(), g()
print(defaults_scope())
lst = [1, 2, 3]
def comprehension_scopes():
    lst = [10, 20]
    return [x + y for x in lst for y in globals()["lst"]], [lst for lst in lst]
print(comprehension_scopes(), lst)
for loop_var in range(3):
    pass
print(loop_var, [loop_var for loop_var in "ab"], loop_var)
def import_scope():
    import math
    from os import path as p
    def use():
        return math.floor(2.5), p.basename("/a/b")
    return use()
print(import_scope())
''')

_add("zoo_imports_globals", '''
import os, sys as system
import os.path
import xml.dom.minidom
import json as js, math
from math import floor, ceil as up, pi
from os.path import join as pjoin, basename
from collections import OrderedDict, namedtuple as nt
from xml.dom import Node, minidom as md
print(os.sep == os.path.sep, system.version_info[0], xml.dom.minidom is md, js.dumps({"a": [1, None]}), floor(pi), up(pi))
print(pjoin("a", "b"), basename("/x/y.z"), list(OrderedDict(a=1)), nt("P", "x y")(1, 2).y, Node.ELEMENT_NODE, math.gcd(12, 18))
def local_imports():
    import string
    from string import digits as dg, ascii_lowercase
    import collections.abc as cabc
    return string.digits == dg, ascii_lowercase[:3], issubclass(list, cabc.Sequence)
print(local_imports())
class WithImports:
    import itertools as it
    from functools import reduce
    pairs = list(it.combinations(range(3), 2))
    total = reduce(lambda a, b: a + b, range(5))
print(WithImports.pairs, WithImports.total, WithImports.it.__name__)
if system.version_info >= (3,):
    import textwrap as tw
else:
    tw = None
print(tw.shorten("hello world foo", 11))
for modname in ("math",):
    import importlib
    print(importlib.import_module(modname).sqrt(16))
g1 = 1
def set_globals():
    global g1, g2, g3
    g1 += 1
    g2 = g1 * 2
    g3 = [g1, g2]
    def nested():
        global g4
        g4 = "deep"
    nested()
set_globals()
print(g1, g2, g3, g4)
itertools = "user value"
importlib_user = importlib
while g1 < 4:
    g1 += 1
print(itertools, importlib_user is importlib, g1)
''')

_add("zoo_expressions", '''
a, b, c = 5, 3, 0
print(a + b * 2 - c, (a + b) * 2, a ** b ** 2 % 1000, -a ** 2, (-a) ** 2, a // b, a % b, -a // b, a / b, divmod(a, b))
print(a & b, a | b, a ^ b, ~a, a << b, a >> 1, a & b | c, a ^ b & a, not a, not c, not not a)
print(a < b, a <= a, a == 5.0, a != b, a > b >= c, c < b < a, a < b < c, 1 < 2 < 3 < 4, a is a, a is not b, None is None)
print(a in [5], b not in (5,), "a" in "cat", a in {5: 0}, [] == [], [1] < [2], (1, 2) < (1, 3), "a" < "b" <= "b")
print(a and b, c and a, a or b, c or b, c or [] or "", a and b and c, a or b and c, (a or b) and c, not a or b)
print(a if b else c, a if c else b, (a if c else b) if b else c, a if c else b if c else "last", [a, b][c], (a, b)[not c])
print(1_000 + 0x10 + 0o10 + 0b10, 1e3, 1.5e-3, 2j * 2j, 1 + 2j, (1 + 2j).imag, 10 ** 20, 3 / 2, 7 // -2, 7 % -2, -7 % 2)
print([1, 2] + [3], [0] * 3, (1,) + (2,), "ab" * 2, [1, 2, 3][1:], [1, 2, 3][-1], {1, 2} | {3}, {1, 2} & {2}, {**{"a": 1}, "b": 2})
print([*range(3)], (*"ab", 1), {*"aab"} == {"a", "b"}, [1, *[2, 3], 4], {"k": [1, {"j": (2,)}]}["k"][1]["j"][0])
print(len("abc"), abs(-3), round(2.567, 2), int("12") + float("1.5"), str(1) + repr("x"), bool([]), type(1).__name__, isinstance(1, (str, int)))
print(max(1, 2, 3), min([4, 5]), sum([1, 2], 10), sorted([3, 1, 2], reverse=True), list(reversed([1, 2])), list(enumerate("ab", 1)), list(zip("ab", [1, 2])))
print(a.real, (1).bit_length(), "x".upper().lower(), [3, 1].index(1), {"a": 1}.get("b", {}).get("c"), (lambda: a)().__class__.__name__)
print(... is Ellipsis, (1,)[0], ((1,),)[0][0], [[]][0], {}.get(0), (), [], {}, set(), frozenset([1]), b"", bytearray(b"a")[0], range(3)[1], slice(1, 2).stop)
x = [1, 2, 3]
print(x[0:2][0], x[::-1][0], x[slice(1, None)], x[-2:][-1], x[x[0]], x[x[x[0]] - 1], x[True], x[-True])
print((a := 10) + a, [b := 1, b + 1], (c := (d := 2) + 1) * d, a, b, c, d)
''')

_add("zoo_dataflow", '''
log = []
def t(tag, v=None):
    log.append(tag)
    return v
class Rec:
    def __getattr__(self, n):
        log.append("get:" + n)
        return 1
    def __setattr__(self, n, v):
        log.append("set:%s=%r" % (n, v))
    def __getitem__(self, k):
        log.append("item:%r" % (k,))
        return 2
    def __setitem__(self, k, v):
        log.append("setitem:%r=%r" % (k, v))
r = Rec()
r.a = t("v1", 5)
t("o", r).b = t("v2", 6)
t("o", r)[t("k", "key")] = t("v3", 7)
r.c += t("v4", 1)
r[t("k2", 0)] += t("v5", 1)
r[1:2] = t("v6", [8])
r[::2] += t("v7", 9)
x = y = t("v8", 0)
r.d, r[t("k3", 3)] = t("v9", (1, 2))
t("f", lambda *a, **k: None)(t("a1"), *t("a2", []), k=t("a3"), **t("a4", {}))
t("c1", 1) < t("c2", 2) < t("c3", 0) < t("c4", 9)
t("b1", 0) and t("b2", 1) or t("b3", 0) or t("b4", 2)
t("i1", 1) if t("i2", 0) else t("i3", 3)
[t("e", i) for i in t("it", [1, 2]) if t("cond", i)]
{t("dk", 1): t("dv", 2), **t("ds", {})}
f"{t('f1', 1)}{t('f2', 2)!r:{t('f3', 3)}}"
def fn(a=t("d1"), *, b=t("d2")):
    pass
@t("dec1", lambda f: f)
@t("dec2", lambda f: f)
def decorated(p=t("d3")):
    pass
class Cls(t("base", object), metaclass=t("meta", type)):
    attr = t("body")
for r.loopvar in t("iter", [1]):
    t("loopbody")
while t("w", 0):
    pass
r.e
r["k"]
r.f.real
print(log)
''')

_add("zoo_numbers_collections", '''
from collections import defaultdict, Counter, deque
dd = defaultdict(list)
dd["a"].append(1)
dd["b"] += [2]
dd["c"]
cnt = Counter("abracadabra")
cnt["z"] += 1
dq = deque([1, 2, 3], maxlen=3)
dq.append(4)
dq.rotate(1)
print(sorted(dd.items()), cnt.most_common(2), cnt["z"], list(dq))
nested = {"a": {"b": [1, {"c": (2, 3)}]}}
nested["a"]["b"][1]["c"] += (4,)
nested["a"]["b"] += [5]
nested.setdefault("x", {}).setdefault("y", []).append(6)
print(nested)
stack = [1, 2, 3]
stack[-1] += stack.pop()
stack[len(stack) - 2] = stack.pop()
stack.append(stack.pop() + stack.pop(0) if len(stack) > 1 else stack[0])
print(stack)
a = [1, 2, 3, 4, 5]
a[1:4] = a[3:0:-1]
a[::2], a[1::2] = a[1::2] + [0], a[::2][:2]
b = a
b += [6]
c = a[:]
c *= 2
del_like = [v for v in a if v != 6]
print(a, b is a, c, del_like)
s1, s2 = {1, 2, 3}, frozenset({3, 4})
print(sorted(s1 | s2), sorted(s1 & s2), sorted(s1 - s2), sorted(s1 ^ s2), s1 <= s1 | s2, s2.isdisjoint({1}))
t = (1, [2], "s")
t[1].append(3)
u, (v, *w), x = t
print(t, u, v, w, x, t.count(1), t.index("s"))
big = 2 ** 100
print(big, big // 3 ** 20, big % 97, -big >> 90, big.bit_length(), float(big) > 1e30, 10 ** -2, 0.1 + 0.2 == 0.3, round(0.1 + 0.2, 10))
print(7 / 2, 7 // 2, -7 // 2, 7 % -3, 2 ** -1, 2 ** 0.5 > 1.41, int(-1.5), round(2.5), round(3.5), 1 // 1.0, True + True, False * 5)
z = complex(1, -1)
print(z * z, abs(z) > 1.41, z.conjugate(), z == 1 - 1j, (1j) ** 2, 1e309, -1e309, 1e309 - 1e309 != 1e309 - 1e309)
words = "the quick brown fox".split()
index = {w[0]: w for w in words}
lengths = {len(w): [v for v in words if len(v) == len(w)] for w in words}
print(index, lengths, sorted(words, key=len)[-1], "-".join(reversed(words)), [w.title() for w in words if "o" in w])
''')


def programs(py38_only=False):
    if py38_only:
        return {k: v.lstrip("\n") for k, v in ZOO.items() if k in ZOO38}
    return {k: v.lstrip("\n") for k, v in ZOO.items()}
