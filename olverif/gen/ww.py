"""Assignment expressions in while conditions: the converter refuses the plain form (open finding F17 for
C01; a clean rejection since fix cf4f31a) and supports global / nonlocal targets. Whatever it does with
a given loop, it must be one of two things: a refusal, or a well-formed text that behaves like the source.
A deterministic family: condition form x loop body x placement."""

CONDS = {
    "bare": "(n := next(it))",
    "compare": "(n := next(it)) > 0",
    "not-compare": "not (n := next(it)) == 0",
    "call-argument": "abs((n := next(it)))",
    "in-generator": "any((n := v) > 0 for v in [next(it)])",
    "in-list-index": "[(n := next(it))][0]",
    "in-lambda": "(lambda: (q := next(it)))()",
    "two-walruses": "(n := next(it)) and (m := n + 1) > 0",
    "deep-operand": "1 + (2 * (n := next(it))) > 1",
    "conditional": "(n := next(it)) if True else 0",
}
BODIES = {
    "plain": ["M(1)"],
    "break": ["M(1)", "if C(2):", "    break", "M(3)"],
    "continue": ["if C(2):", "    continue", "M(3)"],
    "else": ["M(1)", "@else", "M(4)"],
    "break-else": ["if C(2):", "    break", "M(3)", "@else", "M(4)"],
    "return": ["M(1)", "if C(2):", "    return R(5)", "M(3)"],
    "nested-loop-break": ["for e in IT(6):", "    if C(2):", "        break", "M(3)"],
}
PLACEMENTS = ("module", "function", "function-global", "function-nonlocal", "class", "method")


def build(cond, body, placement):
    if body == "return" and placement in ("module", "class"):
        return None
    c = CONDS[cond]
    loop = ["while %s:" % c]
    for l in BODIES[body]:
        if l == "@else":
            loop.append("else:")
        elif loop[-1] == "else:" or (len(loop) > 1 and "else:" in loop and not l.startswith("@")):
            loop.append("    " + l)
        else:
            loop.append("    " + l)
    pre = ["it = iter([3, 2, 1, 0, 5, 0])", "n = -1"]
    post = ["L('end', n)"]
    if placement == "module":
        lines = pre + loop + post
    elif placement == "function":
        lines = ["def FF():"] + ["    " + l for l in pre + loop + post] + ["    return n", "L('r', FF())"]
    elif placement == "function-global":
        lines = ["n = -7", "def FF():", "    global n"] + ["    " + l for l in pre[:1] + loop + post] + ["    return n", "L('r', FF(), n)"]
    elif placement == "function-nonlocal":
        lines = ["def OUT():", "    n = -7", "    def FF():", "        nonlocal n"] + ["        " + l for l in pre[:1] + loop + post] \
            + ["        return n", "    return FF(), n", "L('r', OUT())"]
    elif placement == "class":
        lines = ["class KK:"] + ["    " + l for l in pre + loop + post] + ["L('cls', KK.n)"]
    elif placement == "method":
        lines = ["class KK:", "    def mm(self):"] + ["        " + l for l in pre + loop + post] + ["        return n", "L('r', KK().mm())"]
    else:
        raise ValueError(placement)
    return "\n".join(lines) + "\n"


def cases():
    for cond in sorted(CONDS):
        for body in sorted(BODIES):
            for placement in PLACEMENTS:
                src = build(cond, body, placement)
                if src is None:
                    continue
                try:
                    compile(src, "<ww>", "exec")
                except SyntaxError:
                    continue        # e.g. a walrus in a comprehension in a class body
                yield (cond, body, placement, src)


def shard(item):
    """(index, shards, mode): mode 'wellformed' (C02: a returned text is one expression) or
    'behaviour' (C05 / C08: a returned text behaves like the source). A refusal is always allowed."""
    from .. import env
    from ..kit import Kit, run_code, compare_obs
    from ..oracle import program_payload
    from ..runner import new_part, key_hash
    idx, nshards, mode = item
    part = new_part()
    for k, (cond, body, placement, src) in enumerate(cases()):
        if k % nshards != idx:
            continue
        for sched in (0, 2):
            o = run_code(src, "exec", Kit(sched, 20000), wall=5)
            if not o["ok"]:
                part["discarded"]["while-walrus:original-raises"] += 1
                continue
            part["evaluations"] += 1
            part["classes"]["while-walrus:" + cond] += 1
            part["nontrivial"].add(key_hash("ww", cond, body, placement, sched))
            bad = None
            for cfg in env.ALL_CFGS:
                try:
                    text = env.convert(src, cfg, 0)
                except Exception:
                    part["classes"]["while-walrus-refused"] += 1
                    continue
                part["classes"]["while-walrus-converted"] += 1
                try:
                    code = compile(text, "<converted>", "eval")
                except BaseException as e:
                    bad = (cfg, ["the returned text is not an expression: %s: %s" % (type(e).__name__, str(e)[:120])])
                    break
                if "\n" in text or "\r" in text:
                    bad = (cfg, ["the returned text contains a line break"])
                    break
                if mode == "behaviour":
                    c = run_code(code, "eval", Kit(sched, 10 * o["used"] + 200), wall=5)
                    d = compare_obs(o, c)
                    if d:
                        bad = (cfg, d)
                        break
            if bad:
                cfg, diffs = bad
                if len(part["violations"]) < 3:
                    payload = program_payload(src, cfg, sched) if mode == "behaviour" else {"kind": "wellformed", "src": src, "cfg": list(cfg)}
                    part["violations"].append({"payload": payload, "diffs": diffs,
                                               "what": "assignment expression in a while condition (%s, %s body, %s): neither refused nor %s (%s)"
                                                       % (cond, body, placement, "well-formed" if mode == "wellformed" else "equivalent", env.cfg_name(cfg))})
                break
    return part
