"""A fixed pool of small, self-contained, deterministic programs that between them touch every
piece of state the converter keeps (helper bootstrap for while/import/for-break, class
loader, nonlocal dicts, both wrappers, both if styles). Used by C10, C16, C15, C17."""
import os

from .. import env

POOL = {
    "empty": "",
    "one_stmt": "print(1)\n",
    "two_stmts": "x = 1\nprint(x + 1)\n",
    "if_else": "x = 3\nif x > 2:\n    print('big')\nelse:\n    print('small')\nif x < 2:\n    print('tiny')\n",
    "if_falsy_body": "x = 0\nif x == 0:\n    x\nelse:\n    print('else')\nprint('end')\n",
    "elif_chain": "for x in range(4):\n    if x == 0:\n        print('a')\n    elif x == 1:\n        print('b')\n    elif x == 2:\n        pass\n    else:\n        print('d')\n",
    "while_loop": "i = 0\nwhile i < 3:\n    print(i)\n    i += 1\n",
    "while_break_else": "i = 0\nwhile i < 5:\n    i += 1\n    if i == 3:\n        break\nelse:\n    print('no break')\nprint(i)\n",
    "for_plain": "t = 0\nfor a in range(4):\n    t += a\nprint(t)\n",
    "for_break": "for a in range(9):\n    if a == 4:\n        break\n    print(a)\nelse:\n    print('never')\n",
    "for_continue_else": "for a in [1, 2, 3]:\n    if a % 2:\n        continue\n    print(a)\nelse:\n    print('done')\n",
    "nested_loops": "for a in range(3):\n    b = 0\n    while b < a:\n        b += 1\n        if b == 2:\n            break\n        print(a, b)\n",
    "func_return": "def f(n):\n    for i in range(n):\n        if i * i > 10:\n            return i\n    return -1\nprint(f(3), f(9))\n",
    "func_args": "def f(a, b=2, *c, d, e=5, **g):\n    return (a, b, c, d, e, sorted(g))\nprint(f(1, d=4), f(1, 2, 3, d=0, z=1))\n",
    "closure": "def mk():\n    n = 0\n    def inc():\n        nonlocal n\n        n += 1\n        return n\n    return inc\nc = mk()\nprint(c(), c(), c())\n",
    "global_stmt": "g = 1\ndef bump():\n    global g\n    g = g + 10\nbump()\nprint(g)\n",
    "decorator": "def deco(f):\n    def w(*a):\n        return ('w', f(*a))\n    return w\n@deco\ndef h(x):\n    return x * 2\nprint(h(4))\n",
    "class_plain": "class A:\n    k = 3\n    def __init__(self, v):\n        self.v = v\n    def get(self):\n        return self.v + self.k\nprint(A(4).get())\n",
    "class_inherit_super": "class A:\n    def who(self):\n        return 'A'\nclass B(A):\n    def who(self):\n        return 'B' + super().who()\nprint(B().who())\n",
    "class_static_cls": "class C:\n    n = 0\n    @staticmethod\n    def s(x):\n        return x + 1\n    @classmethod\n    def c(cls):\n        return cls.n\nprint(C.s(1), C.c(), C().c())\n",
    "import_plain": "import math\nprint(math.floor(2.5))\n",
    "import_as": "import os.path as osp\nprint(osp.basename('/a/b'))\n",
    "from_import": "from math import floor as fl, ceil\nprint(fl(1.5), ceil(1.5))\n",
    "destructure": "a, (b, *c), d = 1, (2, 3, 4), 5\nprint(a, b, c, d)\n",
    "aug_assign": "x = [1]\ny = x\nx += [2]\nd = {'k': 1}\nd['k'] *= 5\nprint(x, y, d)\n",
    "comprehensions": "sq = [i * i for i in range(5) if i % 2]\nm = {k: v for k, v in zip('ab', sq)}\ns = {c for c in 'hello'}\nprint(sq, m, sorted(s), sum(i for i in sq))\n",
    "lambda_walrus": "f = lambda x, y=2: x * y\nprint(f(3), (z := f(2, 5)), z)\n",
    "fstring": "n, w = 3.14159, 8\nprint(f'{n!r:>{w}}|{n:.2f}|{\"q\"!s}')\n",
    "string_multiline": "s = '''a\nb'''\nprint(s, len(s))\n",
    "while_and_import_and_break": "import string\ni = 0\nwhile True:\n    i += 1\n    if i > 2:\n        break\nfor c in string.digits:\n    if c == '3':\n        break\nprint(i, c)\n",
}

# parses, but conversion fails half-way (an unsupported statement deep inside), leaving
# whatever partial state the converter keeps
REJECTED = {
    "try_after_loops": "import math\nfor a in range(3):\n    if a:\n        break\nwhile a:\n    a -= 1\nclass K:\n    def m(self):\n        try:\n            pass\n        finally:\n            pass\n",
    "with_in_func": "def f():\n    for i in range(2):\n        with open('x') as g:\n            break\n",
    "star_import": "import os\nwhile 0:\n    pass\nfrom math import *\n",
}


def repo_scripts():
    d = os.path.join(env.REPO, "oneliner_tests", "test_cases")
    out = {}
    if os.path.isdir(d):
        for f in sorted(os.listdir(d)):
            if f.endswith(".py"):
                with open(os.path.join(d, f), encoding="utf8") as fh:
                    out["repo:" + f[:-3]] = fh.read()
    return out


def all_programs(with_repo=True):
    p = dict(POOL)
    if with_repo:
        p.update(repo_scripts())
    return p
