"""A fixed pool of small, self-contained, deterministic programs that between them touch every
piece of state the converter keeps (helper bootstrap for while/import/for-break, class
loader, nonlocal dicts, both wrappers, both if styles). Used by C10, C16, C15, C17."""
import os

from .. import env

POOL = {
    "empty": "",
    "one_stmt": "print(1)\n",
    "two_stmts": "x = 1\nprint(x + 1)\n",
    "if_else": "x = 3\nif x > 2:\n    print('big')\nelse:\n    print('small')\nif x < 2:\n    print('tiny')\n",
    "if_falsy_body": "x = 0\nif x == 0:\n    x\nelse:\n    print('else')\nprint('end')\n",
    "if_interrupt_else": "def f(xs):\n    out = []\n    for x in xs:\n        if x % 2:\n            continue\n        else:\n            out.append(x)\n        if x > 4:\n            break\n        else:\n            out.append(-x)\n    if not out:\n        return\n    else:\n        out.append('end')\n    return out\nprint(f([1, 2, 3, 6, 8]), f([1]), f([]))\n",
    # interrupts in TAIL position (nothing follows in the loop / function: they lower to nothing)
    "if_interrupt_else_tail": "def g(c):\n    if c:\n        return\n    else:\n        print('else of return', c)\ndef h(c):\n    for i in range(2):\n        if c:\n            break\n        else:\n            print('else of break', i)\n    else:\n        if c:\n            pass\n        else:\n            print('loop else', c)\nfor n in range(4):\n    if n % 2:\n        continue\n    else:\n        print('even', n)\nk = 0\nwhile k < 3:\n    k += 1\n    if k == 2:\n        continue\n    elif k == 3:\n        pass\n    else:\n        print('first', k)\ng(1), g(0), h(1), h(0)\n",
    "falsy_branch_values": "g = 5\ndef f(c):\n    global g\n    if c:\n        g = 0\n    elif c is None:\n        g = ''\n    else:\n        g = 7\n    return g\nclass K:\n    n = None\n    z = 0\n    e = []\n    m = n\n    y = z\n    d = e\n    if z == 0:\n        w: int\n        w = 0\n    else:\n        w = 1\nn = 'global n'\nz = 'global z'\nprint(f(1), f(None), f(0), K.m, K.y, K.d, K.w)\n",
    "surrogates_and_odd_text": "s = '\\ud800\\udfff\\udc00\\ud7ff\\ue000'\nt = 'a\\x00b\\x7f\\x85\\u2028\\ufeff'\nprint(len(s), len(t), [hex(ord(c)) for c in s + t])\n",
    # user functions / classes named like CPython's implicit scopes (hosts before 3.12 tell the scopes apart by name)
    "scope_like_names": "def listcomp(a):\n    return [a + e for e in range(2)]\ndef genexpr():\n    v = 3\n    def setcomp(b):\n        nonlocal v\n        v += b\n        return {v for _ in range(1)}\n    return sum(e for e in setcomp(1)), v\nclass dictcomp:\n    def lambda_(self, k):\n        return {k: e for e in range(2)}\n    def genexpr(self):\n        return list(e for e in (1, 2))\ndef top(x):\n    def listcomp():\n        return [x for _ in range(1)]\n    return listcomp()\nprint(listcomp(1), genexpr(), dictcomp().lambda_(1), dictcomp().genexpr(), top(5))\n",
    "elif_chain": "for x in range(4):\n    if x == 0:\n        print('a')\n    elif x == 1:\n        print('b')\n    elif x == 2:\n        pass\n    else:\n        print('d')\n",
    "while_loop": "i = 0\nwhile i < 3:\n    print(i)\n    i += 1\n",
    "while_break_else": "i = 0\nwhile i < 5:\n    i += 1\n    if i == 3:\n        break\nelse:\n    print('no break')\nprint(i)\n",
    "for_plain": "t = 0\nfor a in range(4):\n    t += a\nprint(t)\n",
    "for_break": "for a in range(9):\n    if a == 4:\n        break\n    print(a)\nelse:\n    print('never')\n",
    "for_continue_else": "for a in [1, 2, 3]:\n    if a % 2:\n        continue\n    print(a)\nelse:\n    print('done')\n",
    "nested_loops": "for a in range(3):\n    b = 0\n    while b < a:\n        b += 1\n        if b == 2:\n            break\n        print(a, b)\n",
    "func_return": "def f(n):\n    for i in range(n):\n        if i * i > 10:\n            return i\n    return -1\nprint(f(3), f(9))\n",
    "func_args": "def f(a, b=2, *c, d, e=5, **g):\n    return (a, b, c, d, e, sorted(g))\nprint(f(1, d=4), f(1, 2, 3, d=0, z=1))\n",
    "closure": "def mk():\n    n = 0\n    def inc():\n        nonlocal n\n        n += 1\n        return n\n    return inc\nc = mk()\nprint(c(), c(), c())\n",
    "global_stmt": "g = 1\ndef bump():\n    global g\n    g = g + 10\nbump()\nprint(g)\n",
    "decorator": "def deco(f):\n    def w(*a):\n        return ('w', f(*a))\n    return w\n@deco\ndef h(x):\n    return x * 2\nprint(h(4))\n",
    "class_plain": "class A:\n    k = 3\n    def __init__(self, v):\n        self.v = v\n    def get(self):\n        return self.v + self.k\nprint(A(4).get())\n",
    "class_inherit_super": "class A:\n    def who(self):\n        return 'A'\nclass B(A):\n    def who(self):\n        return 'B' + super().who()\nprint(B().who())\n",
    "class_static_cls": "class C:\n    n = 0\n    @staticmethod\n    def s(x):\n        return x + 1\n    @classmethod\n    def c(cls):\n        return cls.n\nprint(C.s(1), C.c(), C().c())\n",
    "import_plain": "import math\nprint(math.floor(2.5))\n",
    "import_as": "import os.path as osp\nprint(osp.basename('/a/b'))\n",
    "from_import": "from math import floor as fl, ceil\nprint(fl(1.5), ceil(1.5))\n",
    "destructure": "a, (b, *c), d = 1, (2, 3, 4), 5\nprint(a, b, c, d)\n",
    "aug_assign": "x = [1]\ny = x\nx += [2]\nd = {'k': 1}\nd['k'] *= 5\nprint(x, y, d)\n",
    "comprehensions": "sq = [i * i for i in range(5) if i % 2]\nm = {k: v for k, v in zip('ab', sq)}\ns = {c for c in 'hello'}\nprint(sq, m, sorted(s), sum(i for i in sq))\n",
    "lambda_walrus": "f = lambda x, y=2: x * y\nprint(f(3), (z := f(2, 5)), z)\n",
    "fstring": "n, w = 3.14159, 8\nprint(f'{n!r:>{w}}|{n:.2f}|{\"q\"!s}')\n",
    "string_multiline": "s = '''a\nb'''\nprint(s, len(s))\n",
    "while_and_import_and_break": "import string\ni = 0\nwhile True:\n    i += 1\n    if i > 2:\n        break\nfor c in string.digits:\n    if c == '3':\n        break\nprint(i, c)\n",
}

# one small 3.8-valid program per version-sensitive construct (always run by C15 on every host x
# configuration x runtime, so their detection does not depend on what the generator happens to draw)
VERSION_SENSITIVE = {
    "vs_field_tab_literal": "x = 1\nprint(f'{len(\"\t\")}|{x}')\n",
    "vs_field_latin1_literal": "x = 1\nprint(f'{len(\"é\")}|{x}', f'{\"ü\" * 2}')\n",
    "vs_field_wide_characters": "x = 1\nprint(f'{len(\"\u3000\u200b\u4e16\U0001f600\")}|{x}', f'{\"\u2028\" * 2!r}')\n",
    "vs_field_other_quote": "d = {'k': 1}\nprint(f\"{d['k']}|{d.get('z', 0)}\")\n",
    "vs_spec_tab_fill": "x = 5\nprint(f'{x:\t>4}|{x:é<3}|{x:{chr(48)}>3}')\n",
    "vs_literal_escapes": "x = 5\nprint(f'a\\tb{x}\\n\\\\{x!r}é\\x00')\n",
    "vs_nested_fstring": "x, w = 5, 4\nprint(f'{f\"{x:>{w}}\"!r:>8}|{x}')\n",
    "vs_walrus_index": "l = [1, 2, 3]\nv = 0\nprint(l[(v := 1)], v)\n",
    "vs_walrus_set": "v = 0\nprint(len({(v := 2), 0}), v, {(w := 1) for _ in range(1)}, w)\n",
    "vs_walrus_call_args": "def f(a, b=0):\n    return a + b\nprint(f((y := 3)), f(1, b=(z := 2)), y, z)\n",
    "vs_walrus_comp": "print([(q := e * 2) for e in range(3)], q, [e for e in range(4) if (r := e) % 2], r)\n",
    "vs_walrus_genexp_sole_argument": "data = [3, 1, 2]\nprint(sum((seen := v) for v in data), seen, max((w := v * 2) for v in data if (u := v) > 1), w, u, list((z := v) for v in data), z, sorted(((q := v), -v) for v in data), q)\n",
    "vs_walrus_everywhere": "d = {}\nl = [0, 1, 2, 3]\nf = lambda a, b=0: (a, b)\nprint((a := 1), f((b := 2)), f(1, b=(c := 3)), [(e := 4)], ((g := 5),), {'k': (h := 6)}, {(i := 7): 1}, l[(j := 1):(k := 3)], l[(m := 2)], f'{(n := 8)}', (o := 9) if (p := 1) else (r := 0), (lambda: (s := 10))(), not (t := 0), -(u := 11), (v := 12) + (w := 13), (x := 1) < (y := 2) < (z := 3))\nprint(a, b, c, e, g, h, i, j, k, m, n, o, p, t, u, v, w, x, y, z)\n",
    "vs_lambda_star_names_shadow": "def f(kw, a):\n    def bump():\n        nonlocal kw, a\n        kw, a = kw + 1, a + 1\n    bump()\n    g = lambda *a, **kw: (a, sorted(kw))\n    return g(1, z=2), kw, a\nclass K:\n    kw = 'member'\n    a = 'member-a'\n    h = staticmethod(lambda *a, **kw: (a, sorted(kw)))\n    r = h.__func__(3, y=4)\nprint(f(1, 2), K.r, K.kw)\n",
    "vs_set_and_inplace_operators": "s = {1, 2}\nt = s\ns |= {2, 3}\nprint(sorted(s))\ns ^= {1, 4}\nprint(sorted(s))\ns &= {2, 3, 9}\nprint(sorted(s))\ns -= {9, 2}\nl = [1]\nm = l\nl += [2]\nl *= 2\nd = {'a': 1}\ne = d\nd.update(b=2)\nx = 6\nx ^= 3\nx |= 8\nx &= 13\nx <<= 2\nx >>= 1\nx **= 2\nx //= 5\nx %= 7\nx -= 1\nprint(sorted(s), t is s, l, m is l, sorted(d), e is d, x)\n",
    "vs_star_index": "d = {(0, 1): 7}\np = (0,)\nprint(d[(*p, 1)])\n",
    "vs_star_return_tuple": "def f(a):\n    return (*a, 1)\nprint(f([3]), [*range(2), *'ab'], {**{'k': 1}, 'j': 2})\n",
    "vs_posonly": "def f(a, b=2, /, c=3, *, d=4):\n    return (a, b, c, d)\ng = lambda x, y=1, /, z=2: (x, y, z)\nprint(f(1), f(1, 5, d=0), g(0), g(1, 2, z=3))\n",
    "vs_lambda_default_walrus": "g = lambda a=(w := 5), *, k=(v := 6): (a, k)\nprint(g(), w, v)\n",
    "vs_class_comp": "class K:\n    xs = [1, 2]\n    ys = [e * 2 for e in xs]\n    zs = {e: 0 for e in xs}\nprint(K.ys, K.zs)\n",
    "vs_dict_comp_global_in_class": "G = 3\nclass K:\n    d = {e: G for e in range(2)}\n    s = {G + e for e in range(2)}\n    g = list(G * e for e in range(2))\nprint(K.d, sorted(K.s), K.g)\n",
    "vs_decorated_lambda_kwonly": "def deco(f):\n    return lambda *a, **k: ('d', f(*a, **k))\n@deco\ndef h(*, k=1):\n    return k\nprint(h(), h(k=2))\n",
    "vs_unparenthesised_tuple_contexts": "def f():\n    x = 1, 2\n    for a, b in [(1, 2)]:\n        pass\n    return x, a, b\nprint(f())\n",
    "vs_conditional_lambda": "f = lambda: (lambda: 1 if 0 else 2)()\nprint(f(), (lambda: (yield_ := 3))())\n",
    "vs_eq_specifier": "x = 3\nprint(f'{x=}', f'{x + 1 = }', f'{x=!r:>4}')\n",
    "vs_bytes_and_numbers": "print(b'a\\x00b', 1e309, -1e309 < 0, 1_000, 0x1f, 1j * 1j, 10 ** 30)\n",
}

VERSION_SENSITIVE["vs_long_elif_chain"] = (
    "x = 148\nif x == 0:\n    print(0)\n" + "".join("elif x == %d:\n    print(%d)\n" % (i, i) for i in range(1, 150))
    + "else:\n    print('none')\n")
VERSION_SENSITIVE["vs_long_flat_block"] = "t = 0\n" + "".join("t += %d\n" % i for i in range(400)) + "print(t)\n"
VERSION_SENSITIVE["vs_long_boolean_chains"] = (
    "x = 5\nprint(" + " and ".join("x > %d" % (i % 5) for i in range(120)) + ", " + " or ".join("x < %d" % (i % 5) for i in range(120))
    + ", " + " + ".join("x" for i in range(150)) + ", " + " if 0 else ".join(str(i) for i in range(80)) + ")\n")

# programs for histories (C10): long strings in two quote contexts, a long script with stacked
# decorators (caches keyed by size), many helper names in one output
_LONG = 'a fairly long string with \'single\' and "double" quotes, a backslash \\ and a tab\t inside it, well over forty characters'
_LONG_PLAIN = "a fairly long string without any quote or escape inside it but well over forty characters long"
HISTORY = {
    "long_string_plain": "s = %r\nprint(len(s), s[:12])\n" % _LONG,
    "long_string_nested": "s = 1\nprint(f'{len(%s)}|{s}', [%r][0][:5], {%r: %r}[%r][:3])\n" % (
        '"' + _LONG_PLAIN + '"', _LONG, _LONG_PLAIN, _LONG, _LONG_PLAIN),
    "long_string_in_dict_key_and_fstring": "d = {%r: 1}\nprint(f\"{d['%s']}\", f'{len(\"%s\")}')\n" % (
        _LONG_PLAIN, _LONG_PLAIN, _LONG_PLAIN),
    "long_decorated": (
        "def tag(t):\n    def d(fn):\n        def w(*a, **k):\n            return (t, fn(*a, **k))\n        return w\n    return d\n"
        + "".join("@tag('a%d')\n@tag('b%d')\n@tag('c%d')\ndef f%d(x, y=%d):\n    # padding %s\n    return x * %d + y\n"
                  % (i, i, i, i, i, "p" * 40, i) for i in range(18))
        + "print(f0(1), f5(2), f17(3, y=4))\n"),
    "many_helpers": "".join(
        "for i%d in range(2):\n    if i%d:\n        break\nelse:\n    pass\na%d, (b%d, *c%d) = 1, (2, 3)\nd%d = {}\nd%d['k'] = 0\nd%d['k'] += 1\n"
        % ((i,) * 8) for i in range(6)) + "print(i0, a5, c3)\n",
    # literals that are EQUAL but not the same (2 == 2.0 == 2+0j, 1 == True, 0 == False == 0.0 == -0.0,
    # 'a' == 'a' in two quote contexts, b'a' vs 'a'): anything memoised by value leaks between them
    "equal_literals_floats": "x = 2.0\ny = 1.0\nz = 0.0\nw = -0.0\nc = 2 + 0j\nprint(x, y, z, w, c, 3.0, 1e0, 0j, 10.0, 255.0)\n",
    "equal_literals_ints": "print(list(range(2)), [10, 20, 30][1], [5][0], 3, 10 // 3, 255, 1 + 1, 'ab'[0], 2 * 'x')\n",
    "equal_literals_bools": "a = True\nb = False\nprint(a, b, a + 1, [7, 8][b], [7, 8][a], not 0, not 1)\n",
    "equal_literals_strings": "print('a', b'a', 'ab', b'ab', '1', 1, '', b'', (), [], 'True', 'None', None)\n",
    # many names in every kind of name set the converter keeps (captured parameters and locals, class members,
    # declared globals, imports, comprehension targets): the order in which they are written must not
    # depend on the hash seed of the process
    "many_names": (
        "GLOB1 = GLOB2 = GLOB3 = 1\n"
        "def cased(x, X, xx, Xx, xX, XX, a_b, A_B):\n    def g():\n        nonlocal x, X, xx, Xx, xX, XX, a_b, A_B\n        x += 1\n        return x + X + xx + Xx + xX + XX + a_b + A_B\n    return g()\nprint(cased(1, 2, 3, 4, 5, 6, 7, 8))\n"
        "def f(alpha, beta, gamma, delta, epsilon, zeta, *eta, theta=8, **iota):\n"
        "    def g():\n        nonlocal alpha, beta, gamma, delta, epsilon, zeta, eta, theta, iota\n"
        "        alpha += 1; beta += 1; gamma += 1; delta += 1; epsilon += 1; zeta += 1\n        return alpha + beta + theta + len(eta) + len(iota)\n"
        "    x1 = y1 = z1 = w1 = 0\n    def h():\n        nonlocal x1, y1, z1, w1\n        x1 = y1 = z1 = w1 = 5\n        return x1\n"
        "    class K:\n        a1 = 1; b1 = 2; c1 = 3; d1 = 4\n        r = [e1 for e1 in (a1, b1, c1, d1)]\n"
        "        s = [GLOB1 + GLOB2 + GLOB3 + alpha + x1 for _ in range(1)]\n        t = {k1: v1 for k1, v1 in zip('abc', (a1, b1, c1))}\n"
        "    return g(), h(), K.r, K.s, sorted(K.t.items()), [(p1, q1, r1) for p1 in 'ab' for q1 in 'cd' for r1 in 'e']\n"
        "def q():\n    global ga, gb, gc, gd, ge\n    ga = gb = gc = gd = ge = 1\n    import os, sys, json, math, string\n"
        "    from os.path import join, basename, dirname, splitext\n    return basename(join('a', 'b')), math.floor(1.5)\n"
        "print(f(1, 2, 3, 4, 5, 6, 7, k=9), q(), ga + ge)\n"),
    # the same long string (both quote kinds, a backslash) in a replacement field: host 3.12+ syntax
    "long_string_in_field": "print(f\"{len(%r)}\", f'{%r[:4]}')\n" % (_LONG, _LONG),
}

# parses, but conversion fails half-way (an unsupported statement deep inside), leaving
# whatever partial state the converter keeps
REJECTED = {
    "try_after_loops": "import math\nfor a in range(3):\n    if a:\n        break\nwhile a:\n    a -= 1\nclass K:\n    def m(self):\n        try:\n            pass\n        finally:\n            pass\n",
    "with_in_func": "def f():\n    for i in range(2):\n        with open('x') as g:\n            break\n",
    "star_import": "import os\nwhile 0:\n    pass\nfrom math import *\n",
    # refused while an expression is being rewritten (inside a lambda, inside a comprehension)
    "starred_comp_target_in_lambda": "f = lambda y: [a for *a, b in y]\nprint(f([(1, 2, 3)]))\n",
    "attr_comp_target_in_class": "class K:\n    x = 1\n    ys = [x for K.z in [1, 2]]\n",
    "walrus_while_deep": "def f(q):\n    for a in q:\n        g = lambda: [b for b in q if (lambda: b)()]\n        while (c := a):\n            break\n",
}


from .pool_extra import POOL_EXTRA, VERSION_SENSITIVE_EXTRA  # noqa: E402
POOL.update(POOL_EXTRA)
VERSION_SENSITIVE.update(VERSION_SENSITIVE_EXTRA)


def repo_scripts():
    d = os.path.join(env.REPO, "oneliner_tests", "test_cases")
    out = {}
    if os.path.isdir(d):
        for f in sorted(os.listdir(d)):
            if f.endswith(".py"):
                with open(os.path.join(d, f), encoding="utf8") as fh:
                    out["repo:" + f[:-3]] = fh.read()
    return out


def all_programs(with_repo=True):
    from . import zoo
    p = dict(POOL)
    p.update(HISTORY)
    p.update(zoo.programs())
    if with_repo:
        p.update(repo_scripts())
    return p
