"""G-CF: control-flow skeletons.

A skeleton is a tuple of statements; a statement is
  ('M',)  marker            ('B',) break      ('K',) continue
  ('R0',) bare return       ('R1',) return R(id)
  ('if', body, orelse)  ('wh', body, orelse)  ('for', body, orelse)
body is a non-empty tuple of statements, orelse a possibly empty one. Size = number of
statement nodes. Dead statements after an interrupt are part of the family.
"""
import functools

from hypothesis import strategies as st

INTERRUPTS = ("B", "K", "R0", "R1")
PLACEMENTS = ("module", "func", "class", "func_in_for", "func_in_while", "method")


@functools.lru_cache(maxsize=None)
def _stmts(n, in_loop, in_func):
    """all statements of size n"""
    out = []
    if n == 1:
        out.append(("M",))
        if in_loop:
            out += [("B",), ("K",)]
        if in_func:
            out += [("R0",), ("R1",)]
        return tuple(out)
    for b in range(1, n):
        e = n - 1 - b
        for kind, body_loop in (("if", in_loop), ("wh", True), ("for", True)):
            for body in _blocks(b, body_loop, in_func):
                for orelse in (_blocks(e, in_loop, in_func) if e else ((),)):
                    out.append((kind, body, orelse))
    return tuple(out)


@functools.lru_cache(maxsize=None)
def _blocks(n, in_loop, in_func):
    """all non-empty statement sequences of total size n"""
    out = []
    for k in range(1, n + 1):
        for s in _stmts(k, in_loop, in_func):
            if k == n:
                out.append((s,))
            else:
                for rest in _blocks(n - k, in_loop, in_func):
                    out.append((s,) + rest)
    return tuple(out)


def count(n, in_func):
    return len(_blocks(n, False, in_func))


def enumerate_skeletons(n, in_func):
    return _blocks(n, False, in_func)


def size(block):
    t = 0
    for s in block:
        t += 1
        if len(s) == 3:
            t += size(s[1]) + size(s[2])
    return t


def depth(block):
    d = 0
    for s in block:
        if len(s) == 3:
            d = max(d, 1 + max(depth(s[1]), depth(s[2]) if s[2] else 0))
    return d


def features(block, in_loop=False, acc=None):
    """structural tags: interrupt-in-loop, conditional-return, loop-else, dead-code, nested-loop ..."""
    if acc is None:
        acc = set()
    seen_interrupt = False
    for s in block:
        if seen_interrupt:
            acc.add("dead-code")
        k = s[0]
        if k in INTERRUPTS:
            seen_interrupt = True
            if in_loop:
                acc.add("interrupt-in-loop")
            if k in ("R0", "R1"):
                acc.add("return")
        elif k == "M":
            continue
        elif k == "if":
            _cond_return(s, acc)
            features(s[1], in_loop, acc)
            features(s[2], in_loop, acc)
        else:
            if in_loop:
                acc.add("nested-loop")
            if s[2]:
                acc.add("loop-else")
                if any(x[0] in INTERRUPTS for x in s[2]):
                    acc.add("interrupt-in-loop-else")
            features(s[1], True, acc)
            features(s[2], in_loop, acc)
    return acc


def _cond_return(s, acc):
    for br in (s[1], s[2]):
        for x in br:
            if x[0] in ("R0", "R1"):
                acc.add("conditional-return")


def render(block, ind=0, counter=None, trace_interrupts=False, walrus_iter=False):
    """source lines; probe ids are pre-order statement indices"""
    if counter is None:
        counter = [0]
    p = " " * ind
    lines = []
    for s in block:
        counter[0] += 1
        i = counter[0]
        k = s[0]
        if k in INTERRUPTS and trace_interrupts:
            lines.append("%sM(%d)" % (p, 10000 + i))
        if k == "M":
            lines.append("%sM(%d)" % (p, i))
        elif k == "B":
            lines.append(p + "break")
        elif k == "K":
            lines.append(p + "continue")
        elif k == "R0":
            lines.append(p + "return")
        elif k == "R1":
            lines.append("%sreturn R(%d)" % (p, i))
        else:
            for_head = "for v%d in IT(%%d):" % i
            if walrus_iter is True:
                # the iterable holds an assignment expression (it must be evaluated in front of the
                # comprehension the loop is lowered to)
                for_head = "for v%d in (w%d := IT(%%d)):" % (i, i)
            if walrus_iter == "nested":
                # the assignment expression sits BELOW the top of the iterable expression
                for_head = "for v%d in (0, (w%d := IT(%%d)))[1]:" % (i, i)
            if walrus_iter == "getitem":
                # a sequence in the old protocol (only __getitem__): iter() builds the iterator
                for_head = "for v%d in GS(%%d):" % i
            if walrus_iter == "iterator":
                # the loop is over an ITERATOR object: the for statement still takes iter() of it,
                # once (logged as iter2 by the kit)
                for_head = "for v%d in iter(IT(%%d)):" % i
            head = {"if": "if C(%d):", "wh": "while W(%d):", "for": for_head}[k]
            reads = walrus_iter == "target" and k == "for"
            if reads:
                # the loop TARGET is a variable of the enclosing scope: bound before the loop, read in the
                # else clause and after the loop (a class attribute in class placement)
                lines.append("%sv%d = -1" % (p, i))
            lines.append(p + head % i)
            lines += render(s[1], ind + 1, counter, trace_interrupts, walrus_iter)
            if s[2]:
                lines.append(p + "else:")
                if reads:
                    lines.append("%s L('ve', %d, v%d)" % (p, i, i))
                lines += render(s[2], ind + 1, counter, trace_interrupts, walrus_iter)
            if reads:
                lines.append("%sL('va', %d, v%d)" % (p, i, i))
    return lines


def program(block, placement, trace_interrupts=False, walrus_iter=False):
    """full source text of a skeleton in a placement"""
    if walrus_iter:
        global render
        plain = render
        try:
            render = lambda b, i=0, c=None, t=False, w=True, _w=walrus_iter: plain(b, i, c, t, _w)
            return program(block, placement, trace_interrupts, False)
        finally:
            render = plain
    if placement == "module":
        body = render(block, 0, None, trace_interrupts)
        return "\n".join(body + ["M(9000)"]) + "\n"
    if placement == "class":
        body = render(block, 1, None, trace_interrupts)
        return "\n".join(["class K:"] + body + ["M(9000)"]) + "\n"
    if placement == "func":
        body = render(block, 1, None, trace_interrupts)
        return "\n".join(["def f():"] + body + ["L('r1', f())", "L('r2', f())"]) + "\n"
    if placement == "method":
        body = render(block, 2, None, trace_interrupts)
        return "\n".join(["class K:", " def f(self):"] + body
                         + ["k = K()", "L('r1', k.f())", "L('r2', k.f())"]) + "\n"
    if placement == "func_in_for":
        body = render(block, 2, None, trace_interrupts)
        return "\n".join(["for q in IT(9001):", " def f():"] + body
                         + [" L('r', f())", " if C(9002):", "  break", " M(9003)",
                            "else:", " M(9004)"]) + "\n"
    if placement == "func_in_while":
        body = render(block, 2, None, trace_interrupts)
        return "\n".join(["while W(9001):", " def f():"] + body
                         + [" L('r', f())", " if C(9002):", "  continue", " M(9003)",
                            "else:", " M(9004)"]) + "\n"
    raise ValueError(placement)


def placement_in_func(placement):
    return placement in ("func", "method", "func_in_for", "func_in_while")


# ------------------------------------------------------------------ Hypothesis strategy

def skeleton_strategy(in_func, max_size=10, max_depth=4):
    """random larger skeletons (sizes above the exhaustive bound)"""

    @st.composite
    def block(draw, budget, in_loop, d):
        # budget: remaining node budget (mutable list with one int)
        out = []
        n = draw(st.integers(1, 3))
        for _ in range(n):
            if budget[0] <= 0:
                break
            s = draw(stmt(budget, in_loop, d))
            out.append(s)
            if s[0] == "if" and len(s[1]) == 1 and s[1][0][0] in INTERRUPTS and not s[2]:
                # a conditional interrupt is only interesting when something follows it
                budget[0] -= 1
                out.append(("M",))
        if not out:
            out.append(("M",))
        return tuple(out)

    @st.composite
    def stmt(draw, budget, in_loop, d):
        budget[0] -= 1
        kinds = ["M", "M"]
        if in_loop:
            kinds += ["B", "K"]
        if in_func:
            kinds += ["R0", "R1"]
        if d < max_depth and budget[0] >= 1:
            kinds += ["if", "ifelse", "wh", "for", "whelse", "forelse", "whelse", "forelse"]
            if in_loop or in_func:
                kinds += ["condint", "condint", "condint"]
        k = draw(st.sampled_from(kinds))
        if k == "condint":
            # motif: `if C: <interrupt>` (block() appends a marker behind it)
            budget[0] -= 1
            ints = (["B", "K"] if in_loop else []) + (["R0", "R1"] if in_func else [])
            return ("if", ((draw(st.sampled_from(ints)),),), ())
        if k in ("M", "B", "K", "R0", "R1"):
            return (k,)
        base = {"ifelse": "if", "whelse": "wh", "forelse": "for"}.get(k, k)
        body_loop = in_loop if base == "if" else True
        body = draw(block(budget, body_loop, d + 1))
        orelse = ()
        if k.endswith("else") and budget[0] >= 1:
            orelse = draw(block(budget, in_loop, d + 1))
        return (base, body, orelse)

    @st.composite
    def top(draw):
        budget = [draw(st.integers(5, max_size))]
        return draw(block(budget, False, 0))

    return top()
