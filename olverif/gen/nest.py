"""G-NEST: a deterministic combinatorial sweep of construct INTERACTIONS.

A program is container1[ container2[ item ] ] or container[ item1 ; item2 ]: every construct the
converter lowers, placed inside (or next to) every other one. Containers provide a statement
hole; items are small self-contained statement groups with probes. Names carry the nesting
level so that levels never clash. Flags say what an item needs (a function for `return` /
`nonlocal` / `global`, a loop for `break` / `continue`) and what breaks it (a class body hides
its names from nested functions).

The random program generator reaches these shapes by chance; this sweep reaches all of them on
every run (pairwise / three-way coverage in the sense of combinatorial testing).
"""

# name -> (lines, provides) ; provides: dict of flag changes for the hole
#   func: True/False (hole is directly inside a function body)
#   loop: True/False (hole is directly inside a loop body of the same function)
#   cls:  True/False (hole is directly inside a class body)
# None keeps the outer value.
CONTAINERS = {
    "module": (["{B}"], {}),
    "func": (["def f{d}():", "    {B}", "    return R({d}0)", "L('f{d}', f{d}())"],
             {"func": True, "loop": False, "cls": False}),
    "func_args": (["def f{d}(a{d}, b{d}=P({d}1, 2), *r{d}, k{d}=3, **kw{d}):", "    {B}",
                   "    return (a{d}, b{d}, r{d}, k{d}, sorted(kw{d}))",
                   "L('f{d}', f{d}(1), f{d}(1, 2, 3, k{d}=4, z=5))"],
                  {"func": True, "loop": False, "cls": False}),
    "closure": (["def f{d}():", "    n{d} = 0", "    def g{d}():", "        nonlocal n{d}", "        n{d} += 1",
                 "        return n{d}", "    g{d}()", "    {B}", "    return (n{d}, g{d}())", "L('f{d}', f{d}())"],
                {"func": True, "loop": False, "cls": False}),
    "inner_func": (["def f{d}():", "    v{d} = [{d}]", "    def g{d}():", "        {B}", "        return v{d}",
                    "    return g{d}()", "L('f{d}', f{d}())"],
                   {"func": True, "loop": False, "cls": False}),
    "class": (["class K{d}:", "    a{d} = {d}", "    {B}", "    z{d} = a{d} + 1", "L('K{d}', K{d}.a{d}, K{d}.z{d})"],
              {"func": False, "loop": False, "cls": True}),
    "method": (["class K{d}:", "    a{d} = {d}", "    def m{d}(self):", "        {B}", "        return self.a{d}",
                "L('K{d}', K{d}().m{d}())"],
               {"func": True, "loop": False, "cls": False}),
    "class_in_func": (["def f{d}():", "    v{d} = {d}", "    class K{d}:", "        a{d} = v{d}", "        {B}",
                       "    return K{d}.a{d}", "L('f{d}', f{d}())"],
                      {"func": False, "loop": False, "cls": True}),
    "if_true": (["if P({d}1, 1):", "    {B}", "else:", "    M({d}2)"], {}),
    "else_taken": (["if P({d}1, 0):", "    M({d}2)", "else:", "    {B}"], {}),
    "elif_taken": (["if P({d}1, 0):", "    M({d}2)", "elif P({d}3, 1):", "    {B}", "else:", "    M({d}4)"], {}),
    "if_sched": (["if C({d}1):", "    {B}", "M({d}5)"], {}),
    "for": (["for i{d} in IT({d}1):", "    {B}", "M({d}2)"], {"loop": True}),
    "for_break": (["for i{d} in IT({d}1):", "    {B}", "    if C({d}2):", "        break", "    M({d}3)", "else:",
                   "    M({d}4)"], {"loop": True}),
    "for_else": (["for i{d} in IT({d}1):", "    M({d}2)", "else:", "    {B}"], {}),
    "while": (["while W({d}1):", "    {B}", "    if C({d}2):", "        continue", "    M({d}3)", "else:", "    M({d}4)"],
              {"loop": True}),
    "while_break": (["while W({d}1):", "    {B}", "    if C({d}2):", "        break"], {"loop": True}),
    "decorated": (["@DECO('d{d}')", "def f{d}():", "    {B}", "    return R({d}0)", "L('f{d}', f{d}())"],
                  {"func": True, "loop": False, "cls": False}),
    "func_in_loop": (["for i{d} in IT({d}1):", "    def f{d}(q{d}=i{d}):", "        {B}", "        return q{d}",
                      "    L('f{d}', f{d}())"],
                     {"func": True, "loop": False, "cls": False}),
}

# name -> (lines, needs, forbids)
ITEMS = {
    "assign": (["x{d} = P({d}1, 5)", "y{d} = z{d} = [x{d}]", "L('as{d}', x{d}, y{d} is z{d})"], (), ()),
    "destructure": (["p{d}, (q{d}, *s{d}) = SEQ('s{d}', [1, (2, 3, 4)])", "L('ds{d}', p{d}, q{d}, s{d})"], (), ()),
    "augassign": (["u{d} = [1]", "w{d} = u{d}", "u{d} += [2]", "b{d} = BOX('b{d}', {'k': 1})", "b{d}['k'] += P({d}1, 2)",
                   "o{d} = OBJ('o{d}')", "o{d}.a = 1", "o{d}.a *= 3", "L('au{d}', u{d}, w{d} is u{d}, b{d}['k'], o{d}.a)"], (), ()),
    "if": (["if C({d}1):", "    M({d}2)", "elif C({d}3):", "    M({d}4)", "else:", "    M({d}5)"], (), ()),
    "for_break": (["for e{d} in IT({d}1):", "    if C({d}2):", "        break", "    M({d}3)", "else:", "    M({d}4)",
                   "M({d}5)"], (), ()),
    "while": (["c{d} = 0", "while c{d} < 3:", "    c{d} += 1", "    if C({d}1):", "        continue", "    M({d}2)",
               "L('wh{d}', c{d})"], (), ()),
    "def_call": (["def h{d}(a, b=P({d}1, 2), *c, k=3):", "    return (a, b, c, k)", "L('dc{d}', h{d}(1), h{d}(1, 2, 3, k=4))"], (), ()),
    "closure": (["t{d} = 0", "def h{d}():", "    nonlocal t{d}", "    t{d} += 1", "    return t{d}",
                 "L('cl{d}', h{d}(), h{d}(), t{d})"], ("func",), ("cls",)),
    "global_store": (["global g{d}", "g{d} = P({d}1, 7)", "L('gs{d}', g{d})"], ("func",), ("cls",)),
    "classdef": (["class Q{d}:", "    n = P({d}1, 3)", "    def m(self, k=n):", "        return k + self.n",
                  "L('cd{d}', Q{d}().m(), Q{d}.n)"], (), ()),
    "class_super": (["class B{d}:", "    def who(self):", "        return 'b'", "class D{d}(B{d}):", "    def who(self):",
                     "        return 'd' + super().who()", "L('cs{d}', D{d}().who())"], (), ()),
    "import": (["import os.path as op{d}", "from math import floor as fl{d}",
                "L('im{d}', op{d}.basename('a/b'), fl{d}(2.5))"], (), ()),
    "from_same_module": (["from os.path import join as jn{d}", "from os.path import basename as bn{d}, dirname as dn{d}",
                          "import xml.dom.minidom as md{d}", "from xml.dom import minidom as md2{d}",
                          "L('fm{d}', bn{d}(jn{d}('a', 'b')), dn{d}('c/d'), md{d} is md2{d})"], (), ()),
    "comp": (["l{d} = [1, 2, 3]",
              "L('co{d}', [e * 2 for e in l{d} if e != 2], {e: e for e in l{d}}, sum(e for e in l{d}))"], (), ()),
    "comp_closure": (["m{d} = 3", "L('cc{d}', [e + m{d} for e in range(2)], [(lambda: m{d} + e)() for e in range(2)])"],
                     (), ("cls",)),
    "lambda": (["la{d} = lambda a, b=P({d}1, 2): a + b", "L('la{d}', la{d}(1), la{d}(1, 1))"], (), ()),
    "walrus": (["L('wa{d}', (wv{d} := P({d}1, 4)) + 1, wv{d})"], (), ()),
    "fstring": (["fs{d} = P({d}1, 3.14159)", "L('fs{d}', f'{fs{d}:.2f}|{fs{d}!r:>10}')"], (), ()),
    "return_cond": (["if C({d}1):", "    return R({d}2)"], ("func",), ("cls",)),
    "break_cond": (["if C({d}1):", "    break"], ("loop",), ()),
    "continue_cond": (["if C({d}1):", "    continue"], ("loop",), ()),
    "expr_stmt": (["o{d} = OBJ('o{d}')", "o{d}.a = 1", "o{d}.a", "P({d}1)"], (), ()),
    "decorated": (["@DECO('x{d}')", "@DECO('y{d}')", "def dd{d}():", "    return R({d}1)", "L('de{d}', dd{d}())"], (), ()),
    "def_return_in_loop": (["def h{d}(xs):", "    for x in xs:", "        if x == 2:", "            return 'found'", "    else:",
                            "        return 'none'", "L('nr{d}', h{d}([1, 2]), h{d}([1]))"], (), ()),
    "slice_store": (["sl{d} = BOX('sl{d}', [0, 1, 2, 3])", "sl{d}[1:3] = P({d}1, [9])", "sl{d}[::2] = [7, 7]",
                     "L('ss{d}', sl{d}[0], sl{d}[1], sl{d}[2])"], (), ()),
    "for_walrus_iter": (["for e{d} in (wl{d} := [1, 2]):", "    M({d}1)", "L('fw{d}', wl{d})"], (), ("cls",)),
}


def _fill(lines, d):
    return [l.replace("{d}", str(d)) for l in lines]


def _nest(container, d, body_lines):
    lines, _ = CONTAINERS[container]
    out = []
    for l in _fill(lines, d):
        if l.strip() == "{B}":
            ind = l[:len(l) - len(l.lstrip())]
            out += [ind + b for b in body_lines]
        else:
            out.append(l)
    return out


def _flags_after(flags, container):
    new = dict(flags)
    for k, v in CONTAINERS[container][1].items():
        new[k] = v
    return new


def _item_ok(item, flags):
    _, needs, forbids = ITEMS[item]
    return all(flags.get(n) for n in needs) and not any(flags.get(f) for f in forbids)


def build(containers, items):
    """source of containers[0][ containers[1][ ... items in sequence ... ] ]; None if an item
    does not fit the innermost hole"""
    flags = {"func": False, "loop": False, "cls": False}
    for c in containers:
        flags = _flags_after(flags, c)
    for it in items:
        if not _item_ok(it, flags):
            return None
    depth = len(containers)
    body = []
    for j, it in enumerate(items):
        body += _fill(ITEMS[it][0], depth * 10 + j + 1)
    for i in range(len(containers) - 1, -1, -1):
        body = _nest(containers[i], i + 1, body)
    return "\n".join(body) + "\nM(99)\n"


def triples():
    """container x container x item"""
    cs = sorted(CONTAINERS)
    for c1 in cs:
        for c2 in cs:
            if c1 == "module" and c2 == "module":
                continue
            for it in sorted(ITEMS):
                yield ((c1, c2), (it,))


def item_pairs():
    """container x item x item (adjacent statements share one scope)"""
    for c in sorted(CONTAINERS):
        for a in sorted(ITEMS):
            for b in sorted(ITEMS):
                yield ((c,), (a, b))


def deep(n=4):
    """a fixed rotation of four containers deep x every item"""
    cs = sorted(CONTAINERS)
    for k in range(len(cs)):
        chain = tuple(cs[(k + 5 * j) % len(cs)] for j in range(n))
        for it in sorted(ITEMS):
            yield (chain, (it,))


def build_repeat(container, item, form):
    """the SAME statements twice in one scope, the first copy guarded: whatever the converter
    remembers from the first occurrence (a temporary, a cache entry, 'this name is bound now')
    must not be relied upon by the second one when the first did not run.
    form: never-then / always-then / then-never / zero-loop-then / sched-then"""
    flags = _flags_after({"func": False, "loop": False, "cls": False}, container)
    if not _item_ok(item, flags) or item in ("return_cond", "break_cond", "continue_cond", "global_store"):
        return None
    lines = _fill(ITEMS[item][0], 21)
    ind = ["    " + l for l in lines]
    if form == "never-then":
        body = ["if P(901, 0):"] + ind + lines
    elif form == "always-then":
        body = ["if P(901, 1):"] + ind + lines
    elif form == "then-never":
        body = lines + ["if P(901, 0):"] + ind
    elif form == "zero-loop-then":
        body = ["for zz21 in P(901, []):"] + ind + lines
    elif form == "sched-then":
        body = ["if C(901):"] + ind + ["else:", "    M(902)"] + lines
    else:
        raise ValueError(form)
    return "\n".join(_nest(container, 1, body)) + "\nM(99)\n"


REPEAT_FORMS = ("never-then", "always-then", "then-never", "zero-loop-then", "sched-then")


def repeats():
    for c in sorted(CONTAINERS):
        for it in sorted(ITEMS):
            for form in REPEAT_FORMS:
                yield (c, it, form)


def random_deep(seed, n, max_containers=5, max_items=3):
    """n seeded random programs: 3..max_containers containers deep, 1..max_items items in the hole"""
    import random
    rng = random.Random(seed)
    cs, its = sorted(CONTAINERS), sorted(ITEMS)
    out = []
    guard = 0
    while len(out) < n and guard < 50 * n:
        guard += 1
        chain = tuple(rng.choice(cs) for _ in range(rng.randint(3, max_containers)))
        items = tuple(rng.choice(its) for _ in range(rng.randint(1, max_items)))
        if build(chain, items) is not None:
            out.append((chain, items))
    return out


def catalogue():
    """every deterministic interaction program: ("nest", containers, items) / ("repeat", container, item, form)"""
    out = [("nest", cs, its) for cs, its in list(triples()) + list(item_pairs()) + list(deep())]
    out += [("repeat", c, it, form) for c, it, form in repeats()]
    return out


def build_any(entry):
    if entry[0] == "nest":
        return build(entry[1], entry[2])
    return build_repeat(entry[1], entry[2], entry[3])


def label(entry):
    if entry[0] == "nest":
        return "%s > %s" % (" > ".join(entry[1]), " ; ".join(entry[2]))
    return "%s > %s twice (%s)" % (entry[1], entry[2], entry[3])
