"""G-SIZE: program families parameterised by N. Each program leaves its result in RESULT."""

FAMILIES = {
    # consecutive statements in one block
    "stmts_aug": lambda n: "x = 0\n" + "x += 1\n" * n + "RESULT = x\n",
    "stmts_assign": lambda n: "\n".join("x%d = %d" % (i, i) for i in range(n)) + "\nRESULT = x%d\n" % (n - 1),
    "stmts_calls": lambda n: "acc = []\n" + "".join("acc.append(%d)\n" % i for i in range(n)) + "RESULT = len(acc)\n",
    "defs": lambda n: "".join("def f%d(): return %d\n" % (i, i) for i in range(n)) + "RESULT = f%d()\n" % (n - 1),
    "stmts_in_func": lambda n: "def f():\n    x = 0\n" + "    x += 1\n" * n + "    return x\nRESULT = f()\n",
    "stmts_in_loop": lambda n: "x = 0\nfor i in range(2):\n" + "    x += 1\n" * n + "RESULT = x\n",
    "elif_chain": lambda n: "x = -1\nif x == 0:\n    y = 0\n" + "".join("elif x == %d:\n    y = %d\n" % (i, i) for i in range(1, n)) + "else:\n    y = -5\nRESULT = y\n",
    # long chains inside one expression
    "binop_left": lambda n: "RESULT = " + " + ".join(["1"] * n) + "\n",
    "binop_right": lambda n: "RESULT = " + "(1 + " * (n - 1) + "1" + ")" * (n - 1) + "\n",
    "boolop": lambda n: "RESULT = " + " and ".join(["1"] * n) + "\n",
    "compare_chain": lambda n: "RESULT = " + " < ".join(str(i) for i in range(n)) + "\n",
    "calls": lambda n: "f = lambda *a: f\nx = f" + "()" * n + "\nRESULT = x is f\n",
    "attrs": lambda n: "class A:\n    pass\na = A()\na.a = a\nx = a" + ".a" * n + "\nRESULT = x is a\n",
    "subscripts": lambda n: "l = []\nl.append(l)\nx = l" + "[0]" * n + "\nRESULT = x is l\n",
    "list_display": lambda n: "RESULT = len([" + ", ".join(str(i) for i in range(n)) + "])\n",
    "dict_display": lambda n: "RESULT = len({" + ", ".join("%d: %d" % (i, i) for i in range(n)) + "})\n",
    "call_args": lambda n: "f = lambda *a: len(a)\nRESULT = f(" + ", ".join(str(i) for i in range(n)) + ")\n",
    "fstring_fields": lambda n: "x = 1\nRESULT = len(f'" + "{x}" * n + "')\n",
    "string_concat": lambda n: "RESULT = len(" + " ".join("'a%d'" % i for i in range(n)) + ")\n",
    # one statement with N targets; right-nested lambdas / conditional expressions need no parentheses
    "chained_targets": lambda n: " = ".join("a%d" % i for i in range(n)) + " = 7\nRESULT = a0 + a%d\n" % (n - 1),
    "chained_targets_in_func": lambda n: "def f():\n    " + " = ".join("a%d" % i for i in range(n)) + " = 7\n    return a0 + a%d\nRESULT = f()\n" % (n - 1),
    "lambda_tower": lambda n: "f = " + "lambda: " * n + "1\nfor _ in range(%d):\n    f = f()\nRESULT = f\n" % n,
    "lambda_tower_in_class": lambda n: "class K:\n    f = " + "lambda: " * n + "1\nf = K.f\nfor _ in range(%d):\n    f = f()\nRESULT = f\n" % n,
    "lambda_tower_in_func": lambda n: "def mk():\n    v = 1\n    return " + "lambda: " * n + "v\nf = mk()\nfor _ in range(%d):\n    f = f()\nRESULT = f\n" % n,
    "ifexp_tower": lambda n: "x = 0\nRESULT = " + "1 if x else " * n + "2\n",
    "comp_clauses": lambda n: "RESULT = len([0 " + " ".join("for i%d in [1]" % i for i in range(n)) + "])\n",
    "comp_conditions": lambda n: "RESULT = len([0 for i in [1] " + " ".join("if i" for i in range(n)) + "])\n",
    "decorators": lambda n: "def d(f):\n    return lambda: f() + 1\n" + "@d\n" * n + "def g():\n    return 0\nRESULT = g()\n",
    "class_bases_kw": lambda n: "class B:\n    def __init_subclass__(cls, **kw):\n        cls.n = len(kw)\nclass K(B, " + ", ".join("k%d=%d" % (i, i) for i in range(n)) + "):\n    pass\nRESULT = K.n\n",
    "params": lambda n: "def f(" + ", ".join("p%d=%d" % (i, i) for i in range(n)) + "):\n    return p%d\nRESULT = f()\n" % (n - 1),
    "global_names": lambda n: "def f():\n    global " + ", ".join("g%d" % i for i in range(n)) + "\n" + "".join("    g%d = %d\n" % (i, i) for i in range(n)) + "f()\nRESULT = g%d\n" % (n - 1),
    "import_names": lambda n: "from math import " + ", ".join("floor as f%d" % i for i in range(n)) + "\nRESULT = f%d(1.5)\n" % (n - 1),
    "destructure_wide": lambda n: ", ".join("a%d" % i for i in range(n)) + " = range(%d)\nRESULT = a%d\n" % (n, n - 1),
    # nesting
    "nest_if": lambda n: "x = 1\n" + "".join(" " * i + "if x:\n" for i in range(n)) + " " * n + "y = 1\nRESULT = y\n",
    "nest_for": lambda n: "".join(" " * i + "for i%d in [1]:\n" % i for i in range(n)) + " " * n + "y = 1\nRESULT = y\n",
    "nest_while": lambda n: "".join(" " * i + "while True:\n" for i in range(n)) + " " * n + "y = 1\n" + "".join(" " * i + "break\n" for i in range(n, 0, -1)) + "RESULT = y\n",
    "nest_mixed": lambda n: "x = 1\n" + "".join(" " * i + ("if x:\n" if i % 2 else "for i%d in [1]:\n" % i) for i in range(n)) + " " * n + "y = 1\nRESULT = y\n",
    "nest_def": lambda n: "".join(" " * i + "def f%d():\n" % i for i in range(n)) + " " * n + "return 1\n" + "".join(" " * i + "return f%d()\n" % i for i in range(n - 1, 0, -1)) + "RESULT = f0()\n",
    "nest_lambda": lambda n: "RESULT = " + "(lambda: " * n + "1" + ")()" * n + "\n",
    "nest_comp": lambda n: "RESULT = " + "[" * n + "1" + "".join(" for i%d in [1]]" % i for i in range(n)) + "\n",
    "nest_parens_tuple": lambda n: "RESULT = " + "(" * n + "1" + ",)" * n + "\n",
    "nest_ifexp": lambda n: "x = 0\nRESULT = " + "(1 if x else " * n + "2" + ")" * n + "\n",
}

# a long left-nested operator chain placed in every kind of expression position
_CH = lambda n: " + ".join(["1"] * n)
CHAIN_AT = {
    "if_test": lambda n: "RESULT = 0\nif %s:\n    RESULT = 1\n" % _CH(n),
    "while_test": lambda n: "i = 0\nwhile i + %s < %d:\n    i += 1\nRESULT = i\n" % (_CH(n), n + 2),
    "for_iter": lambda n: "for v in [%s]:\n    RESULT = v\n" % _CH(n),
    "for_iter_break": lambda n: "for v in [%s, 0]:\n    RESULT = v\n    break\n" % _CH(n),
    "return_value": lambda n: "def f():\n    return %s\nRESULT = f()\n" % _CH(n),
    "call_arg": lambda n: "acc = []\nacc.append(%s)\nRESULT = acc[0]\n" % _CH(n),
    "default_arg": lambda n: "def f(a=%s, *, k=%s):\n    return a + k\nRESULT = f()\n" % (_CH(n), _CH(n)),
    "subscript_store": lambda n: "d = {}\nd[%s] = %s\nRESULT = sorted(d.items())\n" % (_CH(n), _CH(n)),
    "aug_value": lambda n: "x = 0\nx += %s\nd = {'k': 0}\nd['k'] += %s\nRESULT = (x, d)\n" % (_CH(n), _CH(n)),
    "fstring_field": lambda n: "RESULT = f'{%s}'\n" % _CH(n),
    "lambda_body": lambda n: "RESULT = (lambda: %s)()\n" % _CH(n),
    "comp_parts": lambda n: "RESULT = [%s for v in [%s] if %s]\n" % (_CH(n), _CH(n), _CH(n)),
    "decorator_arg": lambda n: "def deco(v):\n    return lambda fn: (lambda: fn() + v)\n@deco(%s)\ndef f():\n    return 1\nRESULT = f()\n" % _CH(n),
    "class_header": lambda n: "def base(v):\n    return object\nclass K(base(%s)):\n    attr = %s\nRESULT = K.attr\n" % (_CH(n), _CH(n)),
    "walrus_value": lambda n: "RESULT = (w := %s) + w\n" % _CH(n),
    "destructure_value": lambda n: "a, (b, *c) = %s, (%s, 3)\nRESULT = (a, b, c)\n" % (_CH(n), _CH(n)),
    "attr_store_obj": lambda n: "class O:\n    pass\nos = [O()]\nos[%s - %d].x = %s\nRESULT = os[0].x\n" % (_CH(n), n, _CH(n)),
    "import_then_chain": lambda n: "import math\nRESULT = math.floor(%s)\n" % _CH(n),
    "global_store": lambda n: "def f():\n    global g\n    g = %s\nf()\nRESULT = g\n" % _CH(n),
    "nonlocal_store": lambda n: "def f():\n    v = 0\n    def h():\n        nonlocal v\n        v = %s\n    h()\n    return v\nRESULT = f()\n" % _CH(n),
}
for _k, _f in CHAIN_AT.items():
    FAMILIES["chain_at:" + _k] = _f

# a left-nested chain of EVERY operator (one slot table entry each in the project's unparser)
_OPCH = {
    "sub": ("1", " - ", "0"), "mul": ("1", " * ", "1"), "div": ("1", " / ", "1"), "floordiv": ("7", " // ", "1"),
    "mod": ("7", " % ", "5"), "lshift": ("1", " << ", "0"), "rshift": ("9", " >> ", "0"), "bitand": ("3", " & ", "3"),
    "bitxor": ("1", " ^ ", "0"), "bitor": ("0", " | ", "1"), "pow_right": ("1", " ** ", "1"),
    "or": ("0", " or ", "0"), "eq": ("1", " == ", "1"), "ne_le": ("0", " <= ", "0"), "is": ("None", " is ", "None"),
    "is_not": ("len", " is not ", "None"), "in": ("1", " in ", "[1, True]"), "not_in": ("2", " not in ", "[1, False]"),
    "and_or_mixed": ("1", " and 0 or ", "1"), "add_mul_mixed": ("1", " + 2 * ", "1"), "sub_neg": ("1", " - -", "1"),
    "shift_add_mixed": ("1", " << 0 + ", "1"), "bitor_xor_and_mixed": ("1", " | 2 ^ 3 & ", "1"),
    "cmp_in_bool": ("1", " < 2 and ", "1"), "not_and": ("1", " and not ", "0"),
}
for _k, (_a, _op, _b) in _OPCH.items():
    FAMILIES["op_chain:" + _k] = (lambda a, op, b: (lambda n: "RESULT = " + a + (op + b) * (n - 1) + "\n"))(_a, _op, _b)
FAMILIES["op_chain:matmul"] = lambda n: "class M:\n    def __matmul__(self, o):\n        return self\nm = M()\nRESULT = (m" + " @ m" * (n - 1) + ") is m\n"
FAMILIES["op_chain:unary_minus"] = lambda n: "RESULT = " + "- " * n + "1\n"
FAMILIES["op_chain:unary_invert"] = lambda n: "RESULT = " + "~" * n + "1\n"
FAMILIES["op_chain:unary_not"] = lambda n: "RESULT = " + "not " * n + "1\n"
FAMILIES["op_chain:slices"] = lambda n: "l = [1, 2, 3]\nRESULT = l" + "[:]" * n + "\n"
FAMILIES["op_chain:call_attr_sub_mixed"] = lambda n: ("class A:\n    def __call__(self):\n        return [self]\na = A()\na.a = a\nRESULT = (a"
                                                      + ".a()[0]" * n + ") is a\n")
FAMILIES["op_chain:star_unpack_nest"] = lambda n: "RESULT = " + "[*" * n + "[1]" + "]" * n + "\n"
OP_CHAINS = tuple(k for k in FAMILIES if k.startswith("op_chain:"))
# integer literals of N hex digits (the int-to-str limit is 4300 DECIMAL digits; hex has none in the source)
FAMILIES["hex_int_literal"] = lambda n: "RESULT = (0x" + "f" * n + " % 1000007, 0x1" + "0" * n + " % 999983)\n"

NESTING = ("nest_if", "nest_for", "nest_while", "nest_mixed", "nest_def", "nest_lambda", "nest_comp",
           "nest_parens_tuple", "nest_ifexp", "binop_right", "op_chain:star_unpack_nest")
NEST_SCHEDULE = (5, 10, 20, 40, 60, 80, 95)
# chains that the recursive stdlib unparser walks one frame (or more) per link
CHAIN_LIKE = ("elif_chain", "binop_left", "calls", "attrs", "subscripts", "chained_targets", "chained_targets_in_func",
              "lambda_tower", "lambda_tower_in_class", "lambda_tower_in_func", "ifexp_tower", "decorators",
              "comp_clauses", "comp_conditions") + tuple("chain_at:" + k for k in CHAIN_AT) + OP_CHAINS
IF_STYLE_SENSITIVE = ("elif_chain", "nest_if", "nest_mixed")


def composed(kind, n1, n2):
    """family A of size n1 inside family B of size n2"""
    chain = " + ".join(["1"] * n1)
    if kind == "chain_in_stmts":
        return "x = 0\n" + ("x += %s\n" % chain) * n2 + "RESULT = x\n"
    if kind == "chain_in_func_in_loop":
        return "t = 0\nfor i in range(2):\n    def f():\n        x = 0\n" + ("        x += %s\n" % chain) * n2 + "        return x\n    t += f()\nRESULT = t\n"
    if kind == "stmts_in_nest":
        d = min(n1, 40)
        return "x = 0\n" + "".join(" " * i + "if True:\n" for i in range(d)) + (" " * d + "x += 1\n") * n2 + "RESULT = x\n"
    if kind == "elif_in_class_method":
        return ("class K:\n    def m(self, x):\n        if x == 0:\n            y = 0\n"
                + "".join("        elif x == %d:\n            y = %d\n" % (i, i) for i in range(1, n1))
                + "        else:\n            y = -1\n" + "        y += 1\n" * n2 + "        return y\nRESULT = K().m(%d)\n" % (n1 // 2))
    raise ValueError(kind)


COMPOSED = ("chain_in_stmts", "chain_in_func_in_loop", "stmts_in_nest", "elif_in_class_method")

STATEMENT_COUNT = ("stmts_aug", "stmts_assign", "stmts_calls", "defs", "stmts_in_func", "stmts_in_loop",
                   # one statement that is lowered to N expressions in sequence
                   "global_names", "import_names", "destructure_wide", "chained_targets", "chained_targets_in_func")
SCHEDULE = (10, 30, 100, 300, 1000, 3000, 10000)
