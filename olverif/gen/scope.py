"""G-SCOPE: scope trees with one binding role per scope for a tracked name.

A tree node is (kind, role, children); kinds: module (root), func, class, lambda, comp.
Every scope logs L(id, phase, x) after its own binding action, after its inner scopes and at
its end; every write uses a fresh integer, so the log identifies WHICH variable was read.
Statement scopes cannot nest inside expression scopes (lambda/comp).
"""
import itertools

from hypothesis import strategies as st

KINDS = ("func", "class", "lambda", "comp")
ROLES = {
    "module": ("none", "read", "assign", "assign_noread", "aug", "walrus", "for", "def", "classbind",
               "import", "fromimport", "assign_read_before", "destructure", "withcomp",
               "cond_untaken", "cond_taken", "loop_zero"),
    "func": ("none", "read", "assign", "assign_noread", "assign_nl", "aug", "walrus", "for", "global_assign",
             "global_read", "global_aug", "nonlocal_assign", "nonlocal_read", "nonlocal_aug", "def", "classbind",
             "import", "fromimport", "param", "param_nl", "param_default", "kwonly", "vararg", "destructure",
             "walrus_nonlocal", "for_nonlocal", "param_same", "kwonly_same"),
    "class": ("none", "read", "assign", "assign_noread", "aug", "for", "global_assign", "global_read",
              "nonlocal_assign", "nonlocal_read", "def", "classbind", "import", "assign_read_before",
              "destructure", "cond_untaken", "cond_taken", "loop_zero"),
    "lambda": ("none", "read", "param", "param_default_same", "walrus", "lam_vararg", "lam_kwarg", "lam_kwonly",
               "lam_posonly", "lam_kwonly_same", "walrus_in_comp"),
    "comp": ("none", "read", "target", "target_tuple", "walrus", "iter_read", "cond_read"),
}


class R(object):
    """renderer state"""

    FALSY = ("0", "0.0", "''", "()", "None", "False", "0j", "b''", "frozenset()", "range(0)", "[]", "{}")

    def __init__(self, name="x", base=100, falsy=False):
        self.name = name
        self.v = base
        self.n = 0
        self.falsy = falsy

    def val(self):
        self.v += 1
        if self.falsy:
            # distinguishable FALSY values (the log records type and repr): a lowering that tests a
            # variable's value instead of its existence confuses "bound to something falsy" with "unbound"
            return self.FALSY[(self.v - 1) % len(self.FALSY)]
        return self.v


def number(tree, counter=None):
    """assign pre-order ids: returns nested (id, kind, role, children)"""
    if counter is None:
        counter = [0]
    counter[0] += 1
    i = counter[0]
    kind, role, children = tree
    return (i, kind, role, tuple(number(c, counter) for c in children))


def render_stmt_scope(node, ind, r):
    i, kind, role, children = node
    x = r.name
    p = " " * ind
    L = []
    a = lambda s: L.append(p + s)
    if role == "read":
        a("L(%d, 'r', %s)" % (i, x))
    elif role == "assign":
        a("%s = %s" % (x, r.val()))
        a("L(%d, 'a', %s)" % (i, x))
    elif role == "assign_noread":
        a("%s = %s" % (x, r.val()))
    elif role == "assign_nl":
        a("%s = %s" % (x, r.val()))
        a("def cap%d():" % i)
        a("    nonlocal %s" % x)
        a("    %s += 1000" % x)
        a("cap%d()" % i)
        a("L(%d, 'anl', %s)" % (i, x))
    elif role == "assign_read_before":
        a("L(%d, 'rb', %s)" % (i, x))
        a("%s = %s" % (x, r.val()))
        a("L(%d, 'a', %s)" % (i, x))
    elif role == "cond_untaken":
        # a binding statement that does NOT run, then a read by a later statement of the same scope
        a("if L(%s, 'cu0', 0):" % i)
        a("    %s = %s" % (x, r.val()))
        a("L(%s, 'cu', %s)" % (i, x))
    elif role == "cond_taken":
        a("if not L(%s, 'ct0', 0):" % i)
        a("    %s = %s" % (x, r.val()))
        a("L(%s, 'ct', %s)" % (i, x))
    elif role == "loop_zero":
        a("for %s in []:" % x)
        a("    pass")
        a("L(%s, 'lz', %s)" % (i, x))
    elif role == "aug":
        a("%s += 1000" % x)
        a("L(%d, 'g', %s)" % (i, x))
    elif role == "walrus":
        a("L(%s, 'w', (%s := %s))" % (i, x, r.val()))
        a("L(%d, 'w2', %s)" % (i, x))
    elif role == "walrus_nonlocal":
        a("nonlocal %s" % x)
        a("L(%s, 'wn', (%s := %s))" % (i, x, r.val()))
        a("L(%d, 'wn2', %s)" % (i, x))
    elif role == "for":
        a("for %s in [%s, %s]:" % (x, r.val(), r.val()))
        a("    L(%d, 'f', %s)" % (i, x))
        a("L(%d, 'fa', %s)" % (i, x))
    elif role == "for_nonlocal":
        a("nonlocal %s" % x)
        a("for %s in [%s]:" % (x, r.val()))
        a("    L(%d, 'fn', %s)" % (i, x))
    elif role == "destructure":
        a("(q%s, (%s, *r%s)) = (0, (%s, 1, 2))" % (i, x, i, r.val()))
        a("L(%d, 'ds', %s)" % (i, x))
    elif role == "withcomp":
        a("%s = %s" % (x, r.val()))
        a("L(%d, 'wc', [%s + t for t in [1] if %s])" % (i, x, x))
    elif role == "global_assign":
        a("global %s" % x)
        a("%s = %s" % (x, r.val()))
        a("L(%d, 'ga', %s)" % (i, x))
    elif role == "global_read":
        a("global %s" % x)
        a("L(%d, 'gr', %s)" % (i, x))
    elif role == "global_aug":
        a("global %s" % x)
        a("%s += 1000" % x)
        a("L(%d, 'gg', %s)" % (i, x))
    elif role == "nonlocal_assign":
        a("nonlocal %s" % x)
        a("%s = %s" % (x, r.val()))
        a("L(%d, 'na', %s)" % (i, x))
    elif role == "nonlocal_read":
        a("nonlocal %s" % x)
        a("L(%d, 'nr', %s)" % (i, x))
    elif role == "nonlocal_aug":
        a("nonlocal %s" % x)
        a("%s += 1000" % x)
        a("L(%d, 'ng', %s)" % (i, x))
    elif role == "def":
        a("def %s():" % x)
        a("    return %s" % r.val())
        a("L(%d, 'd', %s())" % (i, x))
    elif role == "classbind":
        a("class %s:" % x)
        a("    v = %s" % r.val())
        a("L(%d, 'c', %s.v)" % (i, x))
    elif role == "import":
        a("import math as %s" % x)
        a("L(%d, 'i', %s.__name__)" % (i, x))
    elif role == "fromimport":
        a("from math import pi as %s" % x)
        a("L(%d, 'fi', int(%s))" % (i, x))
    elif role in ("param", "param_nl", "param_default", "kwonly", "param_same", "kwonly_same"):
        a("L(%d, 'p', %s)" % (i, x))
        if role == "param_nl":
            a("def cap%d():" % i)
            a("    nonlocal %s" % x)
            a("    %s += 1000" % x)
            a("cap%d()" % i)
            a("L(%d, 'pnl', %s)" % (i, x))
    elif role == "vararg":
        a("L(%d, 'va', %s)" % (i, x))
    for ch in children:
        L += render_child(ch, ind, r)
    if role in ("assign", "assign_nl", "aug", "walrus", "global_assign", "nonlocal_assign", "param", "param_nl",
                "assign_read_before", "read", "global_read", "nonlocal_read", "global_aug", "nonlocal_aug",
                "for", "destructure", "walrus_nonlocal", "param_default", "kwonly", "param_same", "kwonly_same",
                "cond_untaken", "cond_taken", "loop_zero"):
        a("L(%d, 'end', %s)" % (i, x))
    if not L:
        a("pass")
    return L


def render_expr_scope(node, r):
    i, kind, role, children = node
    x = r.name
    parts = []
    if role in ("read", "param", "target", "param_default_same", "target_tuple", "lam_vararg", "lam_kwarg",
                "lam_kwonly", "lam_posonly", "lam_kwonly_same"):
        parts.append("L(%d, 'r', %s)" % (i, x))
    if role == "walrus_in_comp":
        # a walrus inside a comprehension inside the lambda binds a variable of the LAMBDA
        parts.append("[L(%s, 'wc', (%s := %s)) for wt%s in [0]]" % (i, x, r.val(), i))
        parts.append("L(%d, 'wc2', %s)" % (i, x))
    if role == "walrus":
        parts.append("L(%s, 'w', (%s := %s))" % (i, x, r.val()))
        parts.append("L(%d, 'w2', %s)" % (i, x))
    for ch in children:
        parts.append(expr_child(ch, r))
    if role in ("read", "param", "target", "walrus", "param_default_same", "target_tuple"):
        parts.append("L(%d, 'end', %s)" % (i, x))
    return "[" + ", ".join(parts) + "]"


def expr_child(ch, r):
    i, kind, role, children = ch
    x = r.name
    body = render_expr_scope(ch, r)
    if kind == "lambda":
        if role == "param":
            return "(lambda %s: %s)(%s)" % (x, body, r.val())
        if role == "param_default_same":
            return "(lambda %s=%s: %s)()" % (x, x, body)
        if role == "lam_kwonly_same":
            return "(lambda *, %s=%s: %s)()" % (x, x, body)
        if role == "lam_vararg":
            return "(lambda *%s: %s)(%s)" % (x, body, r.val())
        if role == "lam_kwarg":
            return "(lambda **%s: %s)(k=%s)" % (x, body, r.val())
        if role == "lam_kwonly":
            return "(lambda *, %s=%s: %s)()" % (x, r.val(), body)
        if role == "lam_posonly":
            return "(lambda %s, /: %s)(%s)" % (x, body, r.val())
        return "(lambda: %s)()" % body
    t = x if role == "target" else ("(%s, u%d)" % (x, i) if role == "target_tuple" else "t%d" % i)
    src = "[%s]" % r.val() if role != "target_tuple" else "[(%s, 0)]" % r.val()
    if role == "iter_read":
        return "[%s for %s in [%s]]" % (body, t, x)
    if role == "cond_read":
        return "[%s for %s in %s if L(%d, 'cr', %s) or True]" % (body, t, src, i, x)
    return "[%s for %s in %s]" % (body, t, src)


def render_child(ch, ind, r):
    i, kind, role, children = ch
    x = r.name
    p = " " * ind
    L = []
    if kind == "func":
        params = {"param": x, "param_nl": x, "param_default": "%s=%s" % (x, r.val()), "kwonly": "*, %s=%s" % (x, r.val()),
                  "vararg": "*%s" % x, "param_same": "%s=%s" % (x, x), "kwonly_same": "*, %s=%s" % (x, x)}.get(role, "")
        L.append("%sdef f%d(%s):" % (p, i, params))
        L += render_stmt_scope(ch, ind + 1, r)
        if role in ("param", "param_nl"):
            L.append("%sf%s(%s)" % (p, i, r.val()))
        elif role == "vararg":
            L.append("%sf%s(%s, %s)" % (p, i, r.val(), r.val()))
        else:
            L.append("%sf%d()" % (p, i))
    elif kind == "class":
        L.append("%sclass K%d:" % (p, i))
        L += render_stmt_scope(ch, ind + 1, r)
    else:
        L.append(p + expr_child(ch, r))
    return L


def render(tree, init=True, second=None, falsy=False):
    """source of a whole program; `second` = (tree2) renders an independent tracked name y;
    falsy: every value written is one of 12 distinguishable FALSY values"""
    node = number(tree)
    r = R("x", 100, falsy)
    lines = (["x = 1"] if init else []) + render_stmt_scope(node, 0, r)
    if second is not None:
        node2 = number(second, [500])
        r2 = R("y", 5000)
        lines += ["y = 2"] + render_stmt_scope(node2, 0, r2)
    return "\n".join(lines) + "\n"


# ------------------------------------------------------------------ two tracked names in ONE tree

END_ROLES = ("assign", "assign_nl", "aug", "walrus", "global_assign", "nonlocal_assign", "param", "param_nl",
             "assign_read_before", "read", "global_read", "nonlocal_read", "global_aug", "nonlocal_aug",
             "for", "destructure", "walrus_nonlocal", "param_default", "kwonly", "param_same", "kwonly_same",
             "cond_untaken", "cond_taken", "loop_zero")
# roles the second name may play (no parameter roles: the parameter list belongs to the first name)
OVERLAY_ROLES = ("none", "read", "assign", "assign_nl", "aug", "nonlocal_assign", "nonlocal_read", "nonlocal_aug",
                 "global_assign", "global_read", "walrus", "for")


def _split(node, ind, r):
    """(lines before the inner scopes, lines after them) of one scope for one name"""
    i, kind, role, _ = node
    if role == "none":
        return [], []
    L = render_stmt_scope((i, kind, role, ()), ind, r)
    if role in END_ROLES:
        return L[:-1], L[-1:]
    return L, []


def render2_scope(nx, ny, ind, rx, ry):
    """both names act in the same scopes: x's action, y's action, the inner scopes, x's end, y's end"""
    prex, postx = _split(nx, ind, rx)
    prey, posty = _split(ny, ind, ry)
    # declarations (global/nonlocal) must precede any use of the name in the scope: they do, each
    # name's lines start with its own declaration and the names are different
    L = prex + prey
    for chx, chy in zip(nx[3], ny[3]):
        L += render2_child(chx, chy, ind, rx, ry)
    L += postx + posty
    if not L:
        L.append(" " * ind + "pass")
    return L


def render2_child(chx, chy, ind, rx, ry):
    i, kind, role, children = chx
    if kind not in ("func", "class"):
        return render_child(chx, ind, rx)       # expression scopes track the first name only
    head = render_child((i, kind, role, ()), ind, rx)
    # head[0] is the def/class line; for functions the last line is the call
    L = [head[0]] + render2_scope(chx, chy, ind + 1, rx, ry)
    if kind == "func":
        L.append(head[-1])
    return L


def render2(tree_x, tree_y, init=True):
    """one program in which x plays tree_x's roles and y plays tree_y's roles in the SAME scopes
    (the trees must have the same shape; statement scopes only below the root for y)"""
    nx = number(tree_x)
    ny = number(tree_y, [500])
    rx, ry = R("x", 100), R("y", 5000)
    lines = (["x = 1", "y = 2"] if init else []) + render2_scope(nx, ny, 0, rx, ry)
    return "\n".join(lines) + "\n"


TWO_NAME_ROLES = ("none", "read", "assign", "assign_nl", "nonlocal_assign", "nonlocal_aug", "nonlocal_read")


def _legal_single(tree):
    try:
        compile(render(tree, True), "<scope>", "exec")
        return True
    except SyntaxError:
        return False


def trees_two_names():
    """chains module > f > g > h (and f > g) of functions; each of the two names has its own owner
    level and its own access in the deeper functions: two dictionaries of captured variables on one
    chain, read and written from below (pairs of statically legal single-name chains)"""
    import itertools
    out = []
    for depth in (2, 3):
        singles = []
        for roles in itertools.product(TWO_NAME_ROLES, repeat=depth):
            t = ()
            for r in reversed(roles):
                t = (("func", r, t),)
            tree = ("module", "none", t)
            if any(r != "none" for r in roles) and _legal_single(tree):
                singles.append(tree)
        for tx in singles:
            for ty in singles:
                out.append((tx, ty))
    return out


def legal_child(parent_kind, child_kind):
    if parent_kind in ("lambda", "comp"):
        return child_kind in ("lambda", "comp")
    return True


def roles_for(kind, parent_kind):
    roles = ROLES[kind]
    return roles


def all_nodes(kind_filter=None):
    for k in KINDS:
        for role in ROLES[k]:
            yield (k, role)


def trees_chain1():
    for rr in ROLES["module"]:
        for (k, role) in all_nodes():
            yield ("module", rr, ((k, role, ()),))


def trees_chain2(root_roles=None):
    for rr in (root_roles or ROLES["module"]):
        for (k1, r1) in all_nodes():
            for (k2, r2) in all_nodes():
                if not legal_child(k1, k2):
                    continue
                yield ("module", rr, ((k1, r1, ((k2, r2, ()),)),))


def trees_sib2(root_roles=None):
    for rr in (root_roles or ROLES["module"]):
        for (k1, r1) in all_nodes():
            for (k2, r2) in all_nodes():
                yield ("module", rr, ((k1, r1, ()), (k2, r2, ())))


def trees_chain3(root_roles=("none", "assign")):
    for rr in root_roles:
        for (k1, r1) in all_nodes():
            for (k2, r2) in all_nodes():
                if not legal_child(k1, k2):
                    continue
                for (k3, r3) in all_nodes():
                    if not legal_child(k2, k3):
                        continue
                    yield ("module", rr, ((k1, r1, ((k2, r2, ((k3, r3, ()),)),)),))


FOCUS = {
    "func": ("assign", "assign_nl", "param_nl", "global_read", "nonlocal_assign", "none"),
    "class": ("none", "assign", "assign_noread", "global_read", "assign_read_before"),
    "lambda": ("none", "read", "param_default_same", "walrus"),
    "comp": ("none", "read", "target", "iter_read"),
}


def trees_chain4_focus(root_roles=("none", "assign")):
    """chains of four inner scopes over a small role set per kind (deep nesting of classes in
    classes in functions etc. is where 'skip exactly one level' mistakes live)"""
    nodes = [(k, r) for k in KINDS for r in FOCUS[k]]
    for rr in root_roles:
        for (k1, r1) in nodes:
            if k1 not in ("func",):
                continue
            for (k2, r2) in nodes:
                if not legal_child(k1, k2) or k2 == "comp":
                    continue
                for (k3, r3) in nodes:
                    if not legal_child(k2, k3):
                        continue
                    for (k4, r4) in nodes:
                        if not legal_child(k3, k4) or k4 in ("func", "class") or r4 == "none":
                            continue
                        yield ("module", rr, ((k1, r1, ((k2, r2, ((k3, r3, ((k4, r4, ()),)),)),)),))


def trees_class_towers(root_roles=("none", "assign")):
    """a function whose variable lives in the nonlocal dictionary, a tower of two or three nested
    classes below it (each binding the name or not), and a lambda/comprehension/method at the bottom"""
    import itertools
    cls_roles = ("none", "assign_noread", "assign")
    bottoms = [("lambda", "read"), ("comp", "read"), ("lambda", "param_default_same"), ("comp", "iter_read"),
               ("func", "read"), ("func", "nonlocal_read"), ("func", "global_read")]
    for rr in root_roles:
        for fr in ("assign_nl", "param_nl", "assign"):
            for height in (2, 3):
                for roles in itertools.product(cls_roles, repeat=height):
                    for bottom in bottoms:
                        node = (bottom[0], bottom[1], ())
                        for cr in reversed(roles):
                            node = ("class", cr, (node,))
                        yield ("module", rr, (("func", fr, (node,)),))


def walk(tree, path=()):
    yield tree, path
    for c in tree[2]:
        for x in walk(c, path + (tree,)):
            yield x


def tree_strategy(max_depth=4, max_children=2):
    def node(kind, depth):
        roles = ROLES[kind]
        if depth >= max_depth:
            return st.tuples(st.just(kind), st.sampled_from(roles), st.just(()))
        child_kinds = [k for k in KINDS if legal_child(kind, k)]
        child = st.sampled_from(child_kinds).flatmap(lambda k: node(k, depth + 1))
        return st.tuples(st.just(kind), st.sampled_from(roles), st.lists(child, max_size=max_children).map(tuple))

    return node("module", 0)
