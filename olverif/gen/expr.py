"""G-EXPR: expression source composed from a catalogue of (node kind, slot) templates.

Every template has one hole ``{0}`` (possibly used several times). The child is always
inserted *in parentheses*, so each composition is valid Python whenever the construct is
legal in that position at all, and the parentheses vanish in the AST: whether the unparser
puts them back where needed is exactly what is being tested.
"""
import ast
import math

from hypothesis import strategies as st

_BIN = [("pow", "**"), ("mul", "*"), ("mat", "@"), ("div", "/"), ("fdiv", "//"), ("mod", "%"),
        ("add", "+"), ("sub", "-"), ("shl", "<<"), ("shr", ">>"), ("band", "&"), ("xor", "^"),
        ("bor", "|")]

SLOTS = {
    # attribute / subscript / slices
    "attr": "{0}.a", "sub_val": "{0}[a]", "sub_idx": "a[{0}]",
    "sl_lo": "a[{0}:]", "sl_up": "a[:{0}]", "sl_st": "a[::{0}]", "sl_all": "a[{0}:{0}:{0}]",
    "sl_lo_up": "a[{0}:b]", "sl_up_st": "a[:b:{0}]",
    "sub_tup": "a[{0}, b]", "sub_tup_last": "a[b, {0}]", "sub_tup1": "a[{0},]",
    "sub_tup_slice": "a[{0}:b, c]", "sub_tup_slice2": "a[b, c:{0}]", "sub_tup_slice3": "a[::{0}, b:c]",
    "sub_star": "a[*{0}]",
    # calls
    "call_f": "{0}()", "call_f_args": "{0}(a, b=c)", "call_only": "f({0})",
    "call_first": "f({0}, b)", "call_last": "f(a, {0})", "call_mid": "f(a, {0}, b)",
    "call_kw": "f(k={0})", "call_arg_kw": "f(a, k={0})", "call_kw_kw": "f(k=a, j={0})",
    "call_star": "f(*{0})", "call_dstar": "f(**{0})", "call_after_kw": "f(k=a, *{0})",
    "call_star_then": "f(*{0}, a)", "call_dstar_kw": "f(**{0}, k=a)", "call_kw_dstar": "f(k=a, **{0})",
    "call_after_star": "f(*a, {0})", "call_after_dstar_kw": "f(**a, k={0})",
    # boolean / unary / comparison / conditional
    "and_f": "{0} and a", "and_m": "a and {0} and b", "and_l": "a and {0}",
    "or_f": "{0} or a", "or_m": "a or {0} or b", "or_l": "a or {0}",
    "uadd": "+{0}", "usub": "-{0}", "inv": "~{0}", "not": "not {0}",
    "cmp_l": "{0} < a", "cmp_r": "a < {0}", "cmp_m": "a < {0} < b", "cmp_ge_m": "a >= {0} != b",
    "is_l": "{0} is a", "is_r": "a is {0}", "isnot_l": "{0} is not a", "isnot_r": "a is not {0}",
    "in_l": "{0} in a", "in_r": "a in {0}", "notin_l": "{0} not in a", "notin_r": "a not in {0}",
    "eq_r": "a == {0}", "ne_l": "{0} != a", "le_r": "a <= {0}", "gt_l": "{0} > a",
    "if_body": "{0} if a else b", "if_test": "a if {0} else b", "if_else": "a if b else {0}",
    # lambda
    "lam_body": "lambda: {0}", "lam_body_args": "lambda x, *y, z=1, **w: {0}",
    "lam_def": "lambda x={0}: x", "lam_def2": "lambda x, y={0}, /, z={0}: x",
    "lam_kwdef": "lambda *, x={0}: x", "lam_kwdef2": "lambda *a, x, y={0}: x",
    "lam_posonly_def": "lambda x={0}, /: x", "lam_mixed": "lambda a, /, b, c={0}, *d, e, f={0}, **g: a",
    # displays
    "list_e": "[a, {0}, b]", "list_1": "[{0}]", "tup_1": "({0},)", "tup_f": "({0}, a)",
    "tup_l": "(a, {0})", "set_e": "{{a, {0}}}", "set_1": "{{{0}}}",
    "dict_k": "{{{0}: a}}", "dict_v": "{{a: {0}}}", "dict_dstar": "{{**{0}}}",
    "dict_k2": "{{a: b, {0}: c}}", "dict_v2": "{{a: b, c: {0}}}", "dict_dstar2": "{{a: b, **{0}}}",
    "star_list": "[*{0}]", "star_tup": "(*{0}, a)", "star_set": "{{*{0}}}", "star_tup_last": "(a, *{0})",
    # comprehensions
    "lc_elt": "[{0} for x in y]", "lc_iter": "[x for x in {0}]", "lc_if": "[x for x in y if {0}]",
    "lc_if2": "[x for x in y if a if {0}]", "lc_iter2": "[x for x in y for z in {0}]",
    "lc_if_then_for": "[x for x in y if {0} for z in w]",
    "sc_elt": "{{{0} for x in y}}", "sc_iter": "{{x for x in {0}}}", "sc_if": "{{x for x in y if {0}}}",
    "dc_k": "{{{0}: a for x in y}}", "dc_v": "{{a: {0} for x in y}}", "dc_iter": "{{a: b for x in {0}}}",
    "dc_if": "{{a: b for x in y if {0}}}",
    "ge_elt": "({0} for x in y)", "ge_iter": "(x for x in {0})", "ge_if": "(x for x in y if {0})",
    "ge_call": "f({0} for x in y)", "ge_call_iter": "f(x for x in {0})", "ge_call2": "f(({0} for x in y), a)",
    "comp_tuple_target": "[a for x, z in {0}]",
    # asynchronous clauses (parse-level only; the unparser must keep every keyword in place)
    "alc_iter": "[x async for x in {0}]", "alc_elt": "[{0} async for x in y]",
    "alc_second_async": "[x for x in y async for z in {0}]", "alc_both_async": "[x async for x in y async for z in {0}]",
    "alc_first_async_only": "[x async for x in {0} for z in w]", "alc_if": "[x async for x in y if {0}]",
    "adc_iter": "{{a: b async for x in {0}}}", "asc_iter": "{{x async for x in {0}}}",
    "age_iter": "(x async for x in {0})", "age_call": "f(x async for x in {0})",
    "alc_three": "[x for x in y async for z in w for u in {0}]",
    # walrus / await / yield
    "walrus": "(w := {0})", "await": "await {0}", "yield": "yield {0}", "yield_from": "yield from {0}",
    # f-strings
    "fs": "f'{{{0}}}'", "fs_lit": "f'a{{{0}}}b'", "fs_two": "f'{{{0}}}{{{0}}}'",
    "fs_spec": "f'{{a:{{{0}}}}}'", "fs_spec_mixed": "f'{{a:>{{{0}}}.2f}}'",
    "fs_conv": "f'{{{0}!r}}'", "fs_conv_s": "f'{{{0}!s}}'", "fs_conv_a": "f'{{{0}!a:>3}}'",
    "fs_fmt": "f'{{{0}:>3}}'",
}
for _n, _op in _BIN:
    SLOTS["bin_%s_l" % _n] = "{0}" + _op + "a"
    SLOTS["bin_%s_r" % _n] = "a" + _op + "{0}"

# slots whose hole is directly enclosed by brackets in the *output* (precedence can only
# matter for tuple/walrus/yield/starred/generator children there)
DELIMITED = {"sub_idx", "call_only", "list_1", "set_1", "fs", "fs_lit", "fs_two", "walrus"}

ATOMS = {
    "name": "a", "int": "1", "int0": "0", "float": "1.5", "imag": "1j", "str": "'s'",
    "bytes": "b's'", "none": "None", "true": "True", "ell": "...", "elist": "[]",
    "etup": "()", "edict": "{}", "yield0": "yield", "bigint": "10000000000000000000000",
    "negfloat_exp": "1e-07", "fstr": "f'{a}'",
}

# sources of Python >= 3.11 only syntax; skipped (and counted) where they do not parse
SLOT_ORDER = sorted(SLOTS)
KINDS = dict(ATOMS)
for _k in SLOT_ORDER:
    KINDS["k_" + _k] = SLOTS[_k].format("q")
KIND_ORDER = sorted(KINDS)


def compose2(slot, kind):
    return SLOTS[slot].format("(" + KINDS[kind] + ")")


def compose3(outer, mid, kind):
    return SLOTS[outer].format("(" + SLOTS[mid].format("(" + KINDS[kind] + ")") + ")")


def nontrivial2(slot, kind):
    return slot not in DELIMITED and kind.startswith("k_")


# ----------------------------------------------------------------------- normal form

_SKIP = ("ctx", "kind", "type_comment")


def norm(n):
    """Comparable form of an expression tree modulo what cannot matter (DESIGN 2.8 rule 4):
    ctx, Constant.kind, positions; Constant(-n) == UnaryOp(USub, Constant(n))."""
    if isinstance(n, ast.AST):
        if isinstance(n, ast.Constant):
            v = n.value
            if type(v) in (int, float) and (v < 0 or (type(v) is float and math.copysign(1.0, v) < 0)):
                return ("UnaryOp", (("op", ("USub", ())), ("operand", norm(ast.Constant(value=-v)))))
            if type(v) is complex and v.real == 0 and (v.imag < 0 or math.copysign(1.0, v.imag) < 0) \
                    and math.copysign(1.0, v.real) > 0:
                pass
            if type(v) is int:
                return ("Constant", "int", hex(v))  # repr() has a digit limit
            return ("Constant", type(v).__name__, repr(v))
        out = []
        for f in n._fields:
            if f in _SKIP:
                continue
            out.append((f, norm(getattr(n, f, None))))
        return (type(n).__name__, tuple(out))
    if isinstance(n, list):
        return tuple(norm(x) for x in n)
    return n


def tree_depth(n):
    best = 0
    for c in ast.iter_child_nodes(n):
        if isinstance(c, (ast.expr_context, ast.operator, ast.unaryop, ast.boolop, ast.cmpop)):
            continue
        best = max(best, tree_depth(c))
    return best + 1


# ----------------------------------------------------------------------- random deep trees

MULTI = [
    "{0}+{1}", "{0}-{1}", "{0}*{1}", "{0}/{1}", "{0}//{1}", "{0}%{1}", "{0}@{1}", "{0}**{1}",
    "{0}<<{1}", "{0}>>{1}", "{0}&{1}", "{0}^{1}", "{0}|{1}",
    "{0} and {1}", "{0} or {1}", "{0} and {1} and {2}", "{0} or {1} or {2}",
    "{0} < {1}", "{0} == {1} != {2}", "{0} is {1}", "{0} is not {1}", "{0} in {1}", "{0} not in {1}",
    "{0} if {1} else {2}", "lambda x={0}, *, y={1}: {2}", "lambda: {0}",
    "{0}({1})", "{0}({1}, {2})", "{0}(*{1}, k={2})", "{0}(**{1})", "{0}(k={1}, **{2})",
    "{0}[{1}]", "{0}[{1}:{2}]", "{0}[{1}, {2}]", "{0}[{1}:{2}, {0}]", "{0}[::{1}]", "{0}.a",
    "[{0}, {1}]", "({0}, {1})", "({0},)", "{{{0}: {1}}}", "{{**{0}, {1}: {2}}}", "{{{0}, {1}}}",
    "[*{0}, {1}]", "(*{0},)",
    "[{0} for x in {1}]", "[{0} for x in {1} if {2}]", "{{{0}: {1} for x in {2}}}",
    "({0} for x in {1})", "f({0} for x in {1})", "{{{0} for x in {1} for y in {2}}}",
    "(w := {0})", "await {0}", "yield {0}", "yield from {0}",
    "[{0} async for x in {1}]", "[{0} for x in {1} async for y in {2}]", "{{{0}: {1} async for x in {2}}}",
    "({0} async for x in {1} if {2})",
    "-{0}", "+{0}", "~{0}", "not {0}",
    "f'{{{0}}}'", "f'{{{0}!r}}'", "f'{{{0}:{{{1}}}}}'", "f'a{{{0}:>{{{1}}}}}b{{{2}!s}}'",
]


def deep_source_strategy(max_leaves=25):
    atoms = st.sampled_from(sorted(ATOMS.values()))

    def extend(children):
        return st.builds(
            lambda t, a, b, c: t.format("(" + a + ")", "(" + b + ")", "(" + c + ")"),
            st.sampled_from(MULTI), children, children, children)

    return st.recursive(atoms, extend, max_leaves=max_leaves)


# ----------------------------------------------------------------------- corpus

def top_level_exprs(tree):
    """every expression node whose parent is not itself an expression"""
    for node in ast.walk(tree):
        if isinstance(node, (ast.expr, ast.comprehension, ast.keyword, ast.arguments,
                             ast.arg, ast.match_case, ast.pattern)):
            continue
        for child in ast.iter_child_nodes(node):
            if not isinstance(child, ast.expr):
                continue
            if isinstance(getattr(child, "ctx", None), (ast.Store, ast.Del)):
                continue
            if isinstance(child, ast.Starred):
                continue
            yield child


def sub_exprs(tree):
    for node in ast.walk(tree):
        if isinstance(node, ast.expr) and not isinstance(getattr(node, "ctx", None), (ast.Store, ast.Del)) \
                and not isinstance(node, (ast.Starred, ast.Slice)):
            yield node
