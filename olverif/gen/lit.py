"""G-LIT: literals and f-strings from an explicit shape grammar.

Everything is produced as *source text* for the host parser (3.12: PEP 701, so any string
may sit inside a replacement field), parsed, and the parsed tree is the input of the
unparser. That keeps the trees in the parser's normal form.
"""
import itertools

ALPHABET = ["'", '"', "\\", "{", "}", "\n", "a"]

LINEBREAKS = [0x0A, 0x0B, 0x0C, 0x0D, 0x1C, 0x1D, 0x1E, 0x85, 0x2028, 0x2029]
SURROGATES = [0xD800, 0xDBFF, 0xDC00, 0xDFFF, 0xDABC]


def dbl(s):
    return s.replace("{", "{{").replace("}", "}}")


def positions(s):
    """(position name, expression source) for a str payload s"""
    r = repr(s)
    yield "const", r
    yield "fs_lit", "f" + repr(dbl(s) + "{x}")
    yield "fs_lit_mid", "f" + repr("{x}" + dbl(s) + "{y!r}")
    yield "fs_field", "f'{" + r + "}'"
    yield "fs_field_sub", "f'{d[" + r + "]}'"
    yield "fs_field_dictkey", "f'{ {" + r + ": 1}[" + r + "]}'"
    yield "fs_field_call_conv", "f'{g(" + r + ")!r:>10}'"
    yield "fs_spec_field", "f'{x:{" + r + "}z}'"
    yield "fs_nested2", "f'{f\"{" + r + "}\"}'"
    yield "fs_nested3", "f'{f\"{f'{" + r + "}'}\"}'"
    if "{" not in s and "}" not in s:
        yield "fs_spec_lit", "f" + repr("{x:" + s + "}")
        yield "fs_spec_lit_field", "f" + repr("{x:" + s + "{w}}")
    yield "in_list_in_call", "g([" + r + ", " + r + "], k=" + r + ")"
    yield "concat_cmp", r + " + " + r + " == " + r


def bytes_positions(b):
    r = repr(b)
    yield "bytes", r
    yield "bytes_in_field", "f'{" + r + "}'"
    yield "bytes_sub", "d[" + r + "]"


def needs_escape(s):
    return any(c in "'\"\\{}" or ord(c) < 32 or 0x7F <= ord(c) < 0xA0 or
               0xD800 <= ord(c) <= 0xDFFF or ord(c) in LINEBREAKS for c in s)


def short_strings(maxlen=4):
    for n in range(0, maxlen + 1):
        for tup in itertools.product(ALPHABET, repeat=n):
            yield "".join(tup)


def code_points(rng, per_plane=64):
    cps = list(range(0, 0x300)) + LINEBREAKS + SURROGATES + [0xFFFF, 0xFFFE, 0x10000, 0x10FFFF, 0xFEFF]
    for plane in range(0, 17):
        lo, hi = plane * 0x10000, plane * 0x10000 + 0xFFFF
        for _ in range(per_plane):
            cps.append(rng.randint(max(lo, 0x300), hi))
    seen = set()
    for c in cps:
        if c not in seen:
            seen.add(c)
            yield c


# ---------------------------------------------------------------- f-string shapes

CONVS = ["", "!r", "!s", "!a"]
SPECS = ["", ":", ":>3", ":{w}", ":{w}.2f", ":>{w}", ":{w}{p}", ":{w!r:>{p}}"]
VALUES = ["x", "'s'", '"q\'"', "{1: 2}", "{1}", "a if b else c", "a != b", "(lambda: 1)",
          "(y := 1)", "x.y[0]", "-x ** 2", "not x", "x, y", "*x, y", "[i for i in x]",
          "{**a}", "await x", "(yield)", "lambda: 1 if 2 else 3"]


def field(value, conv, spec):
    v = value
    if v.startswith("{"):
        v = " " + v
    if v.startswith("lambda"):
        v = "(" + v + ")"
    return "{" + v + conv + spec + "}"


def fstring(body, q="'"):
    return "f" + q + body + q


def shapes_depth1():
    for value in VALUES:
        for conv in CONVS:
            for spec in SPECS:
                yield ("d1", value, conv, spec), fstring("a" + field(value, conv, spec) + "b")
    # the '=' specifier
    for spec in ["", ":>3", "!r", "!s:{w}"]:
        yield ("eq", "x", "=", spec), fstring("{x=" + spec + "}")
        yield ("eq", "x+1", "=", spec), fstring("{x + 1 = " + spec + "}")


_Q = ["'", '"', "'''", '"""']


def shapes_depth2():
    for (tag, src) in list(shapes_depth1()):
        inner = src[2:-1]  # body of the inner f-string
        for conv in CONVS:
            for spec in SPECS[:6]:
                yield ("d2",) + tag + (conv, spec), fstring(field(fstring(inner, '"'), conv, spec))
    # nested f-string inside the format spec's field
    for value in VALUES[:8]:
        for conv in CONVS:
            yield ("d2spec", value, conv), fstring("{x:{" + fstring(field(value, conv, ""), '"') + "}}")


def shapes_depth3(rng, n):
    d1 = list(shapes_depth1())
    for _ in range(n):
        tag1, s1 = rng.choice(d1)
        body = s1[2:-1]
        c2, p2 = rng.choice(CONVS), rng.choice(SPECS[:6])
        c3, p3 = rng.choice(CONVS), rng.choice(SPECS)
        mid = fstring(field(fstring(body, '"'), c2, p2), "'''")
        yield ("d3",) + tag1 + (c2, p2, c3, p3), fstring(field(mid, c3, p3), '"""')


# ---------------------------------------------------------------- numbers

NUMBERS = [
    "0", "1", "00", "0x10", "0o17", "0b101", "1_000", "10 ** 2", "1e309", "1e-400", "1e308",
    "1.7976931348623157e308", "5e-324", "0.1", ".5", "5.", "1e22", "1e16", "123456789012345678.0",
    "1j", "0j", "1e309j", "1.5j", "1e-7j", "0.0", "1e400", "9007199254740993",
    "0x" + "f" * 4000, "-1", "-1e309", "- 1e309j", "(1+2j)", "1e309 + 1e309j", "True", "False", "None", "...",
]
