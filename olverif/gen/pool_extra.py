"""Pool programs whose text is awkward to write as an escaped one-line literal (nested quotes)."""

POOL_EXTRA = {
    # an assignment expression inside a lambda (default and body) inside a for iterable
    "walrus_in_lambda_in_iterable": r'''
for f in [lambda a=(n := 5): a + 1, lambda: (m := 2)]:
    print(f())
print(n)
def g(xs):
    out = []
    for h in sorted(xs, key=lambda v, _k=(k := 3): (v % _k, (t := v))):
        out.append(h)
        if h > 4:
            break
    return out, k
print(g([5, 1, 4, 2]))
'''.lstrip("\n"),
}

VERSION_SENSITIVE_EXTRA = {
    # string literals in a field BELOW nodes that are not expressions (keyword, comprehension, slice, lambda arguments)
    "vs_field_literals_below_non_expr_nodes": r'''
d = {'w': 6, 'k k': 1}
print(f"{dict(a='x', b='y')}", f"{[w for w in range(3) if str(w) != '1']}", f"{max(range(3), key=lambda c, z='b': (z, -c))}")
print(f"{[c for c in 'ab']}", f"{ {k: v for k, v in [(1, 'v')]} }", f"{(lambda z='q': z)()}", f"{list(range(3))[len('a'):]}")
print(f"{ {k: 'v' for k in 'ab'} }|{sorted({c + '!' for c in 'ab'})}|{'abcdef'['a' < 'b':len('abc')]}|{d['k k']:{d['w']}}")
'''.lstrip("\n"),
    # printable Latin-1 characters that are not letters, in field literals
    "vs_field_latin1_symbols": r'''
t = 21.5
d = {'§ 1': 'one', '½': 0.5}
print(f"{str(t) + '°C'}|{d['§ 1']}|{d['½']}|{'×'.join('ab')}|{'¿' + 'que' + '?'}|{'µ±¬'}")
'''.lstrip("\n"),
    # an assignment expression in a tuple index next to slices
    "vs_walrus_in_slice_tuple_index": r'''
class M:
    def __getitem__(self, i):
        return i
m = M()
print(m[1:3, (k := 2)], k, m[(j := 1), ::2, (h := j + 1)], h, m[(a := 0):(b := 2), a + b])
'''.lstrip("\n"),
    # string literals three and four levels deep in f-strings, written with all four kinds of quotes
    # (valid on 3.8; a host before 3.12 has to find four kinds of quotes again)
    "vs_fstring_three_levels": r'''
xs = [1, 2]
print(f"""{', '.join(f'<{x}:{"odd" if x % 2 else "even"}>' for x in xs)}""")
'''.lstrip("\n"),
    "vs_fstring_four_levels": r'''
xs = [1, 2]
w = 3
print(f"""{'; '.join(f\'\'\'{x}:{"|".join(f"{y:>{w}}{'!' if y else '?'}" for y in range(x))}\'\'\' for x in xs)}""")
'''.lstrip("\n").replace("\\'", "'"),
}
