"""Pool programs whose text is awkward to write as an escaped one-line literal (nested quotes)."""

POOL_EXTRA = {
    # an assignment expression inside a lambda (default and body) inside a for iterable
    "walrus_in_lambda_in_iterable": r'''
for f in [lambda a=(n := 5): a + 1, lambda: (m := 2)]:
    print(f())
print(n)
def g(xs):
    out = []
    for h in sorted(xs, key=lambda v, _k=(k := 3): (v % _k, (t := v))):
        out.append(h)
        if h > 4:
            break
    return out, k
print(g([5, 1, 4, 2]))
'''.lstrip("\n"),
}

VERSION_SENSITIVE_EXTRA = {
    # string literals three and four levels deep in f-strings, written with all four kinds of quotes
    # (valid on 3.8; a host before 3.12 has to find four kinds of quotes again)
    "vs_fstring_three_levels": r'''
xs = [1, 2]
print(f"""{', '.join(f'<{x}:{"odd" if x % 2 else "even"}>' for x in xs)}""")
'''.lstrip("\n"),
    "vs_fstring_four_levels": r'''
xs = [1, 2]
w = 3
print(f"""{'; '.join(f\'\'\'{x}:{"|".join(f"{y:>{w}}{'!' if y else '?'}" for y in range(x))}\'\'\' for x in xs)}""")
'''.lstrip("\n").replace("\\'", "'"),
}
