"""Constant perturbation: a metamorphic source of DATA-VALUE variety.

The lowering encodes control flow in values (`test and (body or 1) or orelse`, flags, `is None`
tests, truthiness of helper results), so which VALUES a program computes can decide whether a
faulty lowering shows. Generators mostly write small truthy integers. This module rewrites the
literals of any program - never the first argument of a probe call, which is the probe's id -
into falsy values, negative numbers, empty collections or non-ASCII text. The variant is a different program;
the oracle stays differential (its own original against its own conversion), so a variant whose
original raises is simply outside the domain and is discarded.
"""
import ast

PROBES = {"M", "C", "W", "R", "IT", "GS", "P", "L", "LO", "OBJ", "BOX", "SEQ", "MK", "KEYS", "DECO"}
MODES = ("falsy", "negative", "text", "empty")
# (no "huge" mode: range(10**30), [0] * 10**30 etc. never return from C code and exhaust memory)


class _Perturb(ast.NodeTransformer):
    def __init__(self, mode):
        self.mode = mode
        self.changed = 0

    def visit_Call(self, node):
        # keep probe ids / tags (first argument of a probe) as they are
        if isinstance(node.func, ast.Name) and node.func.id in PROBES and node.args:
            first = node.args[0]
            node.args = [first] + [self.visit(a) for a in node.args[1:]]
            node.keywords = [self.visit(k) for k in node.keywords]
            return node
        return self.generic_visit(node)

    def visit_JoinedStr(self, node):
        # replacement fields are expressions (visited); the literal pieces and specs stay
        for v in node.values:
            if isinstance(v, ast.FormattedValue):
                v.value = self.visit(v.value)
        return node

    def visit_Subscript(self, node):
        # indices and keys select existing elements: changing them mostly raises
        node.value = self.visit(node.value)
        return node

    def visit_Constant(self, node):
        v = node.value
        m = self.mode
        new = v
        if isinstance(v, bool):
            if m == "falsy":
                new = False
        elif isinstance(v, int):
            if m in ("falsy", "empty"):
                new = 0
            elif m == "negative":
                new = -v - 1
        elif isinstance(v, float):
            if m in ("falsy", "empty"):
                new = 0.0
            elif m == "negative":
                new = -v
        elif isinstance(v, str):
            if m in ("falsy", "empty"):
                new = ""
            elif m == "text":
                new = v + "é世\U0001f600'\"\\\t"
        if new is not v and new != v or type(new) is not type(v):
            self.changed += 1
            return ast.copy_location(ast.Constant(value=new), node)
        return node

    def visit_List(self, node):
        if self.mode == "empty" and isinstance(node.ctx, ast.Load) and node.elts:
            self.changed += 1
            return ast.copy_location(ast.List(elts=[], ctx=ast.Load()), node)
        return self.generic_visit(node)

    def visit_Dict(self, node):
        if self.mode == "empty" and node.keys:
            self.changed += 1
            return ast.copy_location(ast.Dict(keys=[], values=[]), node)
        # keys select entries (later subscripts would raise KeyError): only the values change
        node.values = [self.visit(v) for v in node.values]
        return node

    def visit_keyword(self, node):
        node.value = self.visit(node.value)
        return node


def perturb(src, mode):
    """source text of the variant, or None when nothing changed / the source does not parse"""
    try:
        tree = ast.parse(src)
    except (SyntaxError, ValueError, RecursionError):
        return None
    p = _Perturb(mode)
    tree = p.visit(tree)
    if not p.changed:
        return None
    ast.fix_missing_locations(tree)
    try:
        out = ast.unparse(tree)
        compile(out, "<variant>", "exec")
    except (SyntaxError, ValueError, RecursionError):
        return None
    return out + "\n"
