"""Coverage-guided stage for C03/C04 (thorough tier, optional): atheris/libFuzzer drives a
structured decoder (bytes -> expression source over the G-EXPR templates and G-LIT literals) with
the round-trip oracle INSIDE the target. Runs as its own process:

    python -m olverif.fuzz_expr <artifact-dir> -runs=N -seed=S

exit 0: no failure;  a failure leaves <artifact-dir>/crash-* (the input bytes) and
<artifact-dir>/failing_source.txt (the decoded expression), libFuzzer exits non-zero.
"""
import ast
import os
import sys


def decode(fdp, gx, lit, depth=0):
    """bytes -> expression source; every choice is an index into a fixed table"""
    if depth >= 6 or fdp.remaining_bytes() < 2:
        atoms = sorted(gx.ATOMS.values())
        return atoms[fdp.ConsumeIntInRange(0, len(atoms) - 1)]
    kind = fdp.ConsumeIntInRange(0, 9)
    if kind <= 1:
        atoms = sorted(gx.ATOMS.values())
        return atoms[fdp.ConsumeIntInRange(0, len(atoms) - 1)]
    if kind == 2:
        # a literal with fuzzer-chosen text in a fuzzer-chosen position
        s = fdp.ConsumeUnicodeNoSurrogates(fdp.ConsumeIntInRange(0, 6))
        pos = list(lit.positions(s))
        return pos[fdp.ConsumeIntInRange(0, len(pos) - 1)][1]
    if kind <= 6:
        t = gx.MULTI[fdp.ConsumeIntInRange(0, len(gx.MULTI) - 1)]
        a = "(" + decode(fdp, gx, lit, depth + 1) + ")"
        b = "(" + decode(fdp, gx, lit, depth + 1) + ")" if "{1}" in t else ""
        c = "(" + decode(fdp, gx, lit, depth + 1) + ")" if "{2}" in t else ""
        return t.format(a, b, c)
    slot = gx.SLOT_ORDER[fdp.ConsumeIntInRange(0, len(gx.SLOT_ORDER) - 1)]
    return gx.SLOTS[slot].format("(" + decode(fdp, gx, lit, depth + 1) + ")")


def main():
    art = sys.argv[1]
    os.makedirs(art, exist_ok=True)
    import atheris
    from olverif import env
    if sys.path[0] != env.REPO:
        sys.path.insert(0, env.REPO)
    with atheris.instrument_imports(include=["oneliner"]):
        env.oneliner()          # first import of the code under test: instrumented for coverage
    from olverif.gen import expr as gx
    from olverif.gen import lit
    from olverif.props import c03, c04
    stats = {"n": 0, "parsed": 0}

    def target(data):
        fdp = atheris.FuzzedDataProvider(data)
        try:
            src = decode(fdp, gx, lit)
        except (IndexError, KeyError, ValueError):
            return
        stats["n"] += 1
        try:
            tree = ast.parse(src, mode="eval").body
        except (SyntaxError, ValueError, RecursionError, MemoryError):
            return
        stats["parsed"] += 1
        diffs = c04.literal_diffs(tree)
        if diffs:
            with open(os.path.join(art, "failing_source.txt"), "w", encoding="utf8", errors="backslashreplace") as f:
                f.write(src + "\n" + "\n".join(diffs))
            raise AssertionError("round trip failed: %s" % diffs[0][:200])

    args = [sys.argv[0], "-artifact_prefix=" + art + "/"] + sys.argv[2:]
    atheris.Setup(args, target)
    atheris.Fuzz()


if __name__ == "__main__":
    main()
