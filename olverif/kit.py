"""Probe kit, fuel, canonical values and the one function that executes a program.

stdlib only, Python 3.8 syntax: this module is also loaded by worker.py under the other
interpreters of the image.
"""
import io
import signal
import sys
import types
import zlib


class FuelExhausted(BaseException):
    """The program used more probe ticks than its budget (deterministic 'runs too long')."""


class WallClock(BaseException):
    """Backstop alarm for loops that contain no probe."""


def _h(*parts):
    return zlib.crc32(repr(parts).encode())


class Kit(object):
    """Probe functions handed to generated programs. Everything they log is made of ints,
    strs, bools and canonical forms - never identities or default reprs."""

    NAMES = ("M", "C", "W", "R", "IT", "GS", "P", "L", "LO", "OBJ", "BOX", "SEQ", "MK", "KEYS")

    def __init__(self, sched=0, fuel=200000):
        self.sched = sched
        self.fuel = fuel
        self.used = 0
        self.log = []
        self._ccount = {}
        self._wstate = {}
        self._wact = {}
        self._itact = {}

    # ---- fuel
    def tick(self):
        self.used += 1
        if self.used > self.fuel:
            raise FuelExhausted()

    # ---- schedules: outcome of the k-th evaluation of site i is a function of (sched,i,k)
    def _cbit(self, i, k):
        s = self.sched
        if s == 0:
            return True
        if s == 1:
            return False
        if s == 2:
            return k % 2 == 0
        if s == 3:
            return k % 2 == 1
        return bool(_h("c", s, i, k) & 1)

    def _wlen(self, i, act):
        s = self.sched
        if s == 0:
            return 2
        if s == 1:
            return 1
        if s == 2:
            return 3
        if s == 3:
            return act % 2
        return _h("w", s, i, act) % 4

    def _itlen(self, i, act):
        s = self.sched
        if s == 0:
            return 2
        if s == 1:
            return 1
        if s == 2:
            return 3
        if s == 3:
            return (act + 1) % 2
        return _h("it", s, i, act) % 4

    # ---- probes
    def M(self, i):
        self.tick()
        self.log.append(("M", i))

    def C(self, i):
        self.tick()
        k = self._ccount.get(i, 0)
        self._ccount[i] = k + 1
        b = self._cbit(i, k)
        self.log.append(("C", i, b))
        return b

    def W(self, i):
        self.tick()
        rem = self._wstate.get(i)
        if rem is None:
            act = self._wact.get(i, 0)
            self._wact[i] = act + 1
            rem = self._wlen(i, act)
        if rem > 0:
            self._wstate[i] = rem - 1
            b = True
        else:
            self._wstate[i] = None
            b = False
        self.log.append(("W", i, b))
        return b

    def R(self, i):
        self.tick()
        self.log.append(("R", i))
        return i

    def IT(self, i):
        self.tick()
        act = self._itact.get(i, 0)
        self._itact[i] = act + 1
        n = self._itlen(i, act)
        self.log.append(("IT", i, n))
        return _LoggedIterable(self, i, n)

    def GS(self, i):
        """like IT, but the object is a sequence in the OLD protocol: __getitem__ only, no __iter__"""
        self.tick()
        act = self._itact.get(i, 0)
        self._itact[i] = act + 1
        n = self._itlen(i, act)
        self.log.append(("GS", i, n))
        return _GetitemSequence(self, i, n)

    def P(self, i, v=None):
        """evaluation probe: logs its id, returns v"""
        self.tick()
        self.log.append(("P", i))
        return v

    def L(self, tag, *vals):
        """value logger"""
        self.tick()
        self.log.append(("L", tag) + tuple(canon(v) for v in vals))

    def LO(self, tag, v=None):
        """logs the tag and returns v (an L that can sit inside an expression)"""
        self.tick()
        self.log.append(("LO", tag, canon(v)))
        return v

    def OBJ(self, name):
        return LogObj(self, name)

    def BOX(self, name, data):
        return LogBox(self, name, data)

    def SEQ(self, name, data):
        return OneShot(self, name, data)

    def KEYS(self, name):
        return KeyLog(self, name)

    def MK(self, kind, *a):
        return make_value(self, kind, *a)

    def DECO(self, tag):
        """decorator factory: logs creation and application"""
        self.tick()
        self.log.append(("mkdeco", tag))

        def deco(f):
            self.tick()
            self.log.append(("apply", tag))
            return f
        return deco

    def namespace(self):
        ns = {"__name__": "__main__"}
        for n in self.NAMES:
            ns[n] = getattr(self, n)
        ns["DECO"] = self.DECO
        kit = self

        class Bs(object):
            pass

        class Bs2(object):
            pass

        class Mt(type):
            pass

        class Q(object):
            def __init_subclass__(cls, **kw):
                kit.log.append(("init_subclass", cls.__name__, sorted(kw.items())))

        ns.update(Bs=Bs, Bs2=Bs2, Mt=Mt, Q=Q)
        return ns


class _LoggedIterable(object):
    def __init__(self, kit, i, n):
        self.kit, self.i, self.n = kit, i, n

    def __iter__(self):
        self.kit.tick()
        self.kit.log.append(("iter", self.i))
        return _LoggedIterator(self.kit, self.i, self.n)


class _LoggedIterator(object):
    def __init__(self, kit, i, n):
        self.kit, self.i, self.n, self.k = kit, i, n, 0

    def __iter__(self):
        self.kit.tick()
        self.kit.log.append(("iter2", self.i))
        return self

    def __next__(self):
        self.kit.tick()
        self.kit.log.append(("next", self.i, self.k))
        if self.k >= self.n:
            # a second call after exhaustion is logged too (k stays n)
            raise StopIteration
        self.k += 1
        return self.k


class _GetitemSequence(object):
    def __init__(self, kit, i, n):
        self.kit, self.i, self.n = kit, i, n

    def __getitem__(self, k):
        self.kit.tick()
        self.kit.log.append(("getitem-seq", self.i, k))
        if k >= self.n:
            raise IndexError(k)
        return k + 1


class OneShot(object):
    """one-shot iterator over data that logs every step"""

    def __init__(self, kit, name, data):
        self.kit, self.name, self.data, self.k = kit, name, list(data), 0

    def __iter__(self):
        # not logged: how often CPython calls iter() on something that already is an iterator
        # (twice for a starred unpack) is an implementation detail, not a store
        return self

    def __next__(self):
        self.kit.tick()
        self.kit.log.append(("next", self.name, self.k))
        if self.k >= len(self.data):
            raise StopIteration
        self.k += 1
        return self.data[self.k - 1]


class LogObj(object):
    """object whose attribute reads/writes are logged (attributes not starting with _)"""

    def __init__(self, kit, name):
        object.__setattr__(self, "_kit", kit)
        object.__setattr__(self, "_name", name)
        object.__setattr__(self, "_d", {})

    def __getattr__(self, a):
        if a.startswith("_"):
            raise AttributeError(a)
        self._kit.tick()
        self._kit.log.append(("getattr", self._name, a))
        try:
            return self._d[a]
        except KeyError:
            raise AttributeError(a)

    def __setattr__(self, a, v):
        self._kit.tick()
        self._kit.log.append(("setattr", self._name, a, canon(v)))
        self._d[a] = v

    def _canon(self):
        return ("LogObj", self._name, canon(self._d))


class LogBox(object):
    """container whose item reads/writes (incl. slices) are logged"""

    def __init__(self, kit, name, data):
        self._kit, self._name, self._data = kit, name, data

    @staticmethod
    def _k(k):
        if isinstance(k, slice):
            return ("slice", canon(k.start), canon(k.stop), canon(k.step))
        return canon(k)

    def __getitem__(self, k):
        self._kit.tick()
        self._kit.log.append(("getitem", self._name, self._k(k)))
        return self._data[k]

    def __setitem__(self, k, v):
        self._kit.tick()
        self._kit.log.append(("setitem", self._name, self._k(k), canon(v)))
        self._data[k] = v

    def __len__(self):
        return len(self._data)

    def _canon(self):
        return ("LogBox", self._name, canon(self._data))


class KeyLog(object):
    """container that accepts ANY key (tuples holding slices, Ellipsis, ...) and logs it"""

    def __init__(self, kit, name):
        self._kit, self._name, self._items = kit, name, []

    @staticmethod
    def _k(k):
        if isinstance(k, tuple):
            return ("tuple", [KeyLog._k(x) for x in k])
        if isinstance(k, slice):
            return ("slice", canon(k.start), canon(k.stop), canon(k.step))
        return canon(k)

    def __getitem__(self, k):
        self._kit.tick()
        ck = self._k(k)
        self._kit.log.append(("getkey", self._name, ck))
        for kk, v in reversed(self._items):
            if kk == ck:
                return v
        return 10

    def __setitem__(self, k, v):
        self._kit.tick()
        ck = self._k(k)
        self._kit.log.append(("setkey", self._name, ck, canon(v)))
        self._items.append((ck, v))

    def _canon(self):
        return ("KeyLog", self._name, [(k, canon(v)) for k, v in self._items])


# ---------------------------------------------------------------- operand zoo (C13)

_OPS = ["add", "sub", "mul", "matmul", "truediv", "floordiv", "mod", "pow", "lshift",
        "rshift", "and", "or", "xor"]


def make_value(kit, kind, *a):
    """operand kinds for augmented assignment that are not plain literals"""
    if kind == "inplace_self":      # __iop__ mutates and returns self
        return _mk_cls(kit, "IS", inplace="self")(*a)
    if kind == "inplace_new":       # __iop__ returns a NEW object
        return _mk_cls(kit, "IN", inplace="new")(*a)
    if kind == "inplace_ni":        # __iop__ returns NotImplemented, __op__ exists
        return _mk_cls(kit, "INI", inplace="ni", binary=True)(*a)
    if kind == "binary_only":       # only __op__
        return _mk_cls(kit, "BO", binary=True)(*a)
    if kind == "plain":             # no operator methods at all
        return _mk_cls(kit, "PL")(*a)
    if kind == "reflected":         # only __rop__ (for the right operand)
        return _mk_cls(kit, "RF", reflected=True)(*a)
    raise ValueError(kind)


_cls_cache = {}


def _mk_cls(kit, name, inplace=None, binary=False, reflected=False):
    class V(object):
        def __init__(self, v=0):
            self.v = v
            self.hist = []

        def _canon(self):
            return (name, canon(self.v), canon(self.hist))

    V.__name__ = name

    def val(o):
        return getattr(o, "v", o)

    for op in _OPS:
        if inplace is not None:
            def iop(self, other, op=op):
                kit.tick()
                kit.log.append(("i" + op, name, canon(self.v), canon(val(other))))
                if inplace == "ni":
                    return NotImplemented
                if inplace == "self":
                    self.hist.append(("i" + op, canon(val(other))))
                    return self
                r = V(("i" + op, self.v, val(other)))
                return r
            setattr(V, "__i%s__" % op, iop)
        if binary:
            def bop(self, other, op=op):
                kit.tick()
                kit.log.append((op, name, canon(self.v), canon(val(other))))
                return V((op, self.v, val(other)))
            setattr(V, "__%s__" % op, bop)
        if reflected:
            def rop(self, other, op=op):
                kit.tick()
                kit.log.append(("r" + op, name, canon(self.v), canon(val(other))))
                return V(("r" + op, val(other), self.v))
            setattr(V, "__r%s__" % op, rop)
    return V


# ---------------------------------------------------------------- canonical values

_FUNC_TYPES = (types.FunctionType, types.BuiltinFunctionType, types.MethodType,
               types.BuiltinMethodType, type(len), type([].append), type(str.join),
               type(object.__init__), type(object().__str__))

_KEPT_DUNDERS = None


def canon(v, memo=None):
    """Canonical, identity-free, comparable form of a value."""
    if memo is None:
        memo = {}
    t = type(v)
    if v is None or t is bool or t is int or t is str or t is bytes:
        return (t.__name__, repr(v))
    if t is float or t is complex:
        return (t.__name__, repr(v))
    if v is Ellipsis:
        return ("ellipsis",)
    if v is NotImplemented:
        return ("NotImplemented",)
    if t is range or t is slice:
        return (t.__name__, repr(v))
    if id(v) in memo:
        return ("ref", memo[id(v)])
    if isinstance(v, _FUNC_TYPES):
        return ("callable",)
    if t is staticmethod or t is classmethod or t is property:
        return (t.__name__,)
    if isinstance(v, types.ModuleType):
        return ("module", v.__name__)
    memo[id(v)] = len(memo)
    if t is list or t is tuple:
        return (t.__name__, [canon(x, memo) for x in v])
    if t is set or t is frozenset:
        return (t.__name__, sorted((canon(x, memo) for x in v), key=repr))
    if t is dict:
        return ("dict", [(canon(k, memo), canon(x, memo)) for k, x in v.items()])
    if isinstance(v, type):
        return canon_class(v, memo)
    c = getattr(t, "_canon", None)
    if c is not None:
        try:
            return c(v)
        except Exception:
            return ("canon-error", t.__name__)
    if t.__module__ != "builtins" and hasattr(v, "__dict__"):
        try:
            d = dict(vars(v))
        except TypeError:
            d = {}
        return ("inst", t.__name__, canon(d, memo))
    if isinstance(v, (list, tuple, dict, set, frozenset, int, str, float)):
        return ("sub", t.__name__, repr(v))
    return ("other", t.__name__)


def class_user_attrs(cls):
    out = {}
    for k, val in vars(cls).items():
        if k.startswith("__") and k.endswith("__"):
            # keep user-defined dunder *methods* only; bookkeeping dunders
            # (__module__, __qualname__, __doc__, __dict__, __weakref__, __firstlineno__,
            # __static_attributes__, __annotations__, __hash__ ...) are metadata
            if not isinstance(val, (types.FunctionType, staticmethod, classmethod, property)):
                continue
        out[k] = val
    return out


def canon_class(cls, memo=None):
    if memo is None:
        memo = {}
    if cls.__module__ == "builtins":
        return ("builtin-class", cls.__name__)
    attrs = class_user_attrs(cls)
    return (
        "class",
        cls.__name__,
        [b.__name__ for b in cls.__bases__],
        [b.__name__ for b in cls.__mro__],
        type(cls).__name__,
        # __new__ is made a staticmethod implicitly by the class statement; a plain function
        # stored under that name is called identically by type.__call__
        sorted(((k, ("callable",) if k == "__new__" else canon(a, memo)) for k, a in attrs.items()), key=repr),
    )


# ---------------------------------------------------------------- running programs

def _alarm(signum, frame):
    raise WallClock()


# small standard-library submodules that nothing else imports: generated programs import them with
# `from pkg import sub as alias`; they are removed from sys.modules before every run so that a
# lowering that forgets to import the submodule is visible on every run, not only the first
PURGE_MODULES = ("wsgiref.headers", "wsgiref.util", "wsgiref", "email.errors", "html.entities", "xml.dom.domreg")


def purge_modules():
    for m in PURGE_MODULES:
        sys.modules.pop(m, None)
    for pkg, sub in (("wsgiref", "headers"), ("wsgiref", "util"), ("email", "errors"), ("html", "entities"),
                     ("xml.dom", "domreg")):
        mod = sys.modules.get(pkg)
        if mod is not None and hasattr(mod, sub):
            try:
                delattr(mod, sub)
            except AttributeError:
                pass


def run_code(text, mode, kit=None, wall=20, extra_ns=None, want_globals=True,
             filename="<prog>"):
    """Execute `text` (mode 'exec' for a source script, 'eval' for a converted expression)
    in a fresh namespace. Returns an observation dict:
      ok, err (type name or None), errmsg, stdout, log, globals (canonical), added, used
    """
    if kit is None:
        kit = Kit()
    purge_modules()
    ns = kit.namespace()
    if extra_ns:
        ns.update(extra_ns)
    initial = set(ns)
    out = io.StringIO()
    err = None
    errmsg = ""
    old_stdout = sys.stdout
    old_alarm = None
    try:
        try:
            code = text if isinstance(text, types.CodeType) else compile(text, filename, mode)
        except BaseException as e:  # SyntaxError, RecursionError, MemoryError, ValueError
            return {"ok": False, "err": "compile:" + type(e).__name__, "errmsg": str(e)[:300],
                    "stdout": "", "log": [], "globals": {}, "used": 0, "ns": None}
        if wall:
            old_alarm = signal.signal(signal.SIGALRM, _alarm)
            signal.alarm(wall)
        sys.stdout = out
        try:
            if mode == "exec":
                exec(code, ns)
            else:
                eval(code, ns)
        finally:
            sys.stdout = old_stdout
            if wall:
                signal.alarm(0)
    except FuelExhausted:
        err, errmsg = "FuelExhausted", ""
    except WallClock:
        err, errmsg = "WallClock", ""
    except BaseException as e:
        err, errmsg = type(e).__name__, str(e)[:300]
    finally:
        sys.stdout = old_stdout
        if old_alarm is not None:
            signal.signal(signal.SIGALRM, old_alarm)
    g = {}
    if want_globals:
        # user names share one memo (so aliasing between globals is part of the canonical
        # form) and are visited in sorted order; helper names never touch that memo
        memo = {}
        for k in sorted(ns):
            if k in initial or (k.startswith("__") and k.endswith("__")):
                continue   # __builtins__, __annotations__, ...: bookkeeping, not user names
            helper = k.startswith("__ol_") or k in HELPER_MODULES
            try:
                g[k] = canon(ns[k], {} if helper else memo)
            except BaseException as e:  # a hostile __repr__ etc.
                g[k] = ("canon-error", type(e).__name__)
    return {"ok": err is None, "err": err, "errmsg": errmsg, "stdout": out.getvalue(),
            "log": kit.log, "globals": g, "used": kit.used, "ns": ns}


HELPER_MODULES = ("itertools", "importlib")


def compare_obs(orig, conv, check_globals=True, check_log=True, check_stdout=True):
    """List of human-readable differences between the observation of the source program and
    the observation of the converted expression (empty list = agree)."""
    diffs = []
    if not conv["ok"]:
        diffs.append("converted program raised %s: %s" % (conv["err"], conv["errmsg"]))
        return diffs
    if check_stdout and orig["stdout"] != conv["stdout"]:
        diffs.append("stdout differs: %r vs %r" % (_clip(orig["stdout"]), _clip(conv["stdout"])))
    if check_log and orig["log"] != conv["log"]:
        diffs.append("trace differs at %s" % (_first_diff(orig["log"], conv["log"]),))
    if check_globals:
        og, cg = orig["globals"], conv["globals"]
        for k in og:
            if k not in cg:
                diffs.append("user global %r lost" % k)
            elif og[k] != cg[k]:
                diffs.append("user global %r differs: %s vs %s" % (k, _clip(og[k]), _clip(cg[k])))
        for k in cg:
            if k in og:
                continue
            if k.startswith("__ol_"):
                continue
            if k in HELPER_MODULES and cg[k] == ("module", k):
                continue
            diffs.append("converted program adds non-helper global %r" % k)
    return diffs


def _clip(x, n=160):
    s = x if isinstance(x, str) else repr(x)
    return s if len(s) <= n else s[:n] + "..."


def _first_diff(a, b):
    n = min(len(a), len(b))
    for i in range(n):
        if a[i] != b[i]:
            return "index %d: %r vs %r" % (i, a[i], b[i])
    if len(a) != len(b):
        longer = a if len(a) > len(b) else b
        return "index %d: %s has extra %r (lengths %d vs %d)" % (
            n, "original" if len(a) > len(b) else "converted", longer[n], len(a), len(b))
    return "no difference"
