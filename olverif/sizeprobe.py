"""Runs in a FRESH interpreter with the default recursion limit:
stdin: JSON {"repo":..., "src":..., "cfg":[u,w,s]} ; stdout: JSON {"stage":..., "err":..., "result":...}
(or {"repo":..., "batch":[{"src":..., "cfg":...}, ...]} -> {"stage":"batch", "results":[...]})
stages: source (CPython cannot compile/run the source itself), convert, compile, eval, compare, ok"""
import json
import sys


def main():
    job = json.load(sys.stdin)
    sys.path.insert(0, job["repo"])
    if "batch" in job:
        # many small probes in one fresh interpreter (dense size sweeps)
        return {"stage": "batch", "results": [one(j["src"], j["cfg"]) for j in job["batch"]]}
    return one(job["src"], job["cfg"])


def one(src, cfg):
    job = {"cfg": cfg}
    out = {"stage": "ok", "err": None}
    try:
        code = compile(src, "<src>", "exec")
        g = {}
        exec(code, g)
        want = repr(g.get("RESULT"))
    except BaseException as e:  # the family member is outside the domain at this size
        out.update(stage="source", err=type(e).__name__)
        return out
    import random
    import oneliner
    from oneliner.config import Configs
    c = Configs()
    c.unparser, c.expr_wrapper, c.if_style = job["cfg"]
    random.seed(0)
    try:
        text = oneliner.convert_code_string(src, configs=c)
    except BaseException as e:
        out.update(stage="convert", err=type(e).__name__ + ": " + str(e)[:80])
        return out
    out["out_len"] = len(text)
    try:
        code = compile(text, "<out>", "eval")
    except BaseException as e:
        out.update(stage="compile", err=type(e).__name__ + ": " + str(e)[:80])
        return out
    g = {}
    try:
        eval(code, g)
    except BaseException as e:
        out.update(stage="eval", err=type(e).__name__ + ": " + str(e)[:80])
        return out
    got = repr(g.get("RESULT"))
    if got != want:
        out.update(stage="compare", err="RESULT %s != %s" % (got[:40], want[:40]))
    return out


if __name__ == "__main__":
    try:
        res = main()
    except BaseException as e:  # pragma: no cover
        res = {"stage": "probe", "err": repr(e)}
    sys.stdout.write(json.dumps(res))
