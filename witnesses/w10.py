def f():
    x = 1
    def g():
        nonlocal x
        print((x := x + 1), x)
    g()
    print((x := x * 10), x)
    return x
print(f())
