x = 1
def f():
    x = 2
    def g():
        global x
        print(x)
        x += 10
        return x
    class K:
        global x
        y = x
    return g(), x, K.y
print(f(), x)
