x = 1
def f2(*x):
    def f3():
        global x
        class K4:
            r = (lambda: x)()
            s = [x for _t in [0]]
        return K4.r, K4.s
    return f3()
print(f2(105, 106))
