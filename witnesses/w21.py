itertools = 'mine'
importlib = 7
i = 0
while i < 2:
    i += 1
import math
print(itertools, importlib, math.pi > 3)
