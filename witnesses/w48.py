def f2():
    x = 103
    def f3():
        class K4:
            x = 106
            r = (lambda: x)()
        return K4.r
    return f3()
print(f2())
x = 101
def g2():
    x = 104
    def cap():
        nonlocal x
        x += 1000
    cap()
    class K3:
        global x
        a = x
        b = (lambda: x)()
    return K3.a, K3.b
print(g2())
