import os.path
import xml.dom, json
print(os.path.basename('/a/b'), xml.dom.__name__, json.__name__, os.sep)
