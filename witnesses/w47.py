x = 1
f = lambda: [(x := 5), x]
print(f(), x)
def g():
    y = 1
    def cap():
        nonlocal y
        y += 1
    h = lambda: [(y := 9), y, [(z := t) for t in [3]], z]
    cap()
    return h(), y
print(g())
class K:
    w = 1
    m = (lambda: ((w := 7), w))()
print(K.w, K.m)
