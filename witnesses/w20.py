class A:
    f = lambda self: self.x
    g = lambda self, n=2: n * 3
    x = 5
print(A().f(), A().g())
def outer():
    x = 1
    def inner():
        nonlocal x
        x += 1
    h = lambda x: x + 1
    inner()
    return h(10), x
print(outer())
