_ = 5
i = 0
while _ > 3 and i < 3:
    _ -= 1
    i += 1
print(_, i)
