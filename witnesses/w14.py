x = 1
class A:
    x = 2
    a = [x for _t in range(1)]
    b = (lambda: x)()
    c = [t for t in [x]]
    d = x
    e = (lambda: (lambda: x)())()
    f = {k: x for k in [x]}
print(A.a, A.b, A.c, A.d, A.e, A.f)
def outer():
    x = 'enc'
    y = 'ency'
    class B:
        x = 'cls'
        g = [x for _t in range(1)]
        h = (lambda: (x, y))()
        i = [(t, y) for t in [x]]
    return B.g, B.h, B.i
print(outer())
def fn():
    v = [1, 2]
    def cap():
        nonlocal v
    return [v for v in v], [w for w in v if v]
print(fn())
