def mk():
    class G:
        def who(self): return 'G'
    class K(G):
        def who(self): return 'K' + super(K, self).who()
    class L(G):
        def who(self): return 'L' + super().who() + K().who()
    return L().who()
print(mk())
