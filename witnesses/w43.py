def f(p, q, /, *a):
    def g():
        nonlocal p
        p = max((e - p for e in range(1, 2)), default=0)
    g()
    return p
print(f(0, 1))
