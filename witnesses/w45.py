class T:
    def __init__(self): self.d = {}
    def __setitem__(self, k, v): self.d[repr(k)] = v
    def __getitem__(self, k): return self.d.get(repr(k), 0)
t = T()
t[:42, ..., :24, 24, 100] = 'Strange'
t[1:2, 3] = 5
t[1:2, 3] += 1
t[::2,] = 7
print(sorted(t.d.items()))
class K:
    i = 1
    t = T()
    t[i:, i] = 2
    t[i:, i] += 3
print(sorted(K.t.d.items()))
