class V:
    def __init__(self, v): self.v = v
    def __iadd__(self, o): return V(self.v + o)
a = V(1)
b = a
a += 5
print(a.v, b.v, a is b)
def f():
    x = V(1)
    x += 2
    return x.v
print(f())
