def g():
    yield 1
print(list(g()))
