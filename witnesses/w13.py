x = 1
timeout = 30
class A:
    y = x
    x = 2
    timeout = timeout
    x += 5
    print = print
    print(x, y, timeout)
print(A.x, A.y, A.timeout, x)
def f():
    x = 'local'
    class B:
        z = x
    class C:
        w = x
        x = 'c'
    return B.z, C.w, C.x
print(f())
