def f():
    k = 'a'
    d = {}
    def g():
        return k
    d[k] = 1
    d[g()] += 1
    l = [1, 2, 3]
    n = 1
    def h():
        return n
    l[n:] = [9]
    return d, l
print(f())
class K:
    i = 1
    l = [0, 0, 0]
    l[i] = 5
    l[i:] = [7, 8]
print(K.l)
