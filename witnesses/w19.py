def f():
    from math import floor
    import os.path as osp
    def g():
        return floor(2.5), osp.sep
    return g()
print(f())
