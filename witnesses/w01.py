for i in range(3):
    pass
print(i)
class A:
    for q in range(2):
        print(q)
def f():
    x = 0
    for x in [5]:
        def g():
            return x
    return x, g()
print(f())
for a, (b, *c) in [(1, (2, 3))]:
    a = 9
print(a, b, c)
