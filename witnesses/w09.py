n = 0
def f():
    global n
    n += 1
    return [n]
a = b = f()
print(a, b, a is b, n)
