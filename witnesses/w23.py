log = []
class O: pass
o = O(); d = {}
def P(i, v):
    log.append(i)
    return v
P(1, o).a = P(2, 5)
P(3, d)[P(4, 'k')] = P(5, 6)
print(log, o.a, d)
