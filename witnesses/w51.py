x = 1
def f2(*x):
    def f3():
        global x
        def f4():
            return (lambda: x)(), [x for _t in [0]]
        return f4()
    return f3()
print(f2(107, 108))
