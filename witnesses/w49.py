x = 1
def f2():
    x = 5
    def f3():
        global x
        x += 1000
        def f4():
            return x
        return f4()
    return f3(), x
print(f2(), x)
