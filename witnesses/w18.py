log = []
class O:
    def __init__(self): self.a = 1; self.d = {'k': 1}
o = O()
def get():
    log.append('get')
    return o
def key():
    log.append('key')
    return 'k'
get().a += 1
get().d[key()] += 1
print(log, o.a, o.d)
