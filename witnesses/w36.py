class B:
    def who(self):
        return 'B'
class C(B):
    def who(self):
        def inner():
            return super(C, self).who()
        def inner0(me):
            return super().who()
        return 'C' + inner() + inner0(self)
    def lam(self):
        return (lambda: super(C, self).who())()
print(C().who(), C().lam())
def mk():
    class D(B):
        def who(self):
            def inner():
                return super(D, self).who()
            return 'D' + inner()
    return D().who()
print(mk())
