def deco(c):
    c.tag = 'decorated'
    return c
def deco2(c):
    c.tag2 = getattr(c, 'tag', 'first')
    return c
@deco
@deco2
class A:
    x = 1
print(A.tag, A.tag2)
