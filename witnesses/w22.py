class K:
    l = [1, 2, 3]
    l[1:] += [4]
print(K.l)
