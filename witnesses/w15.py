class k:
    a = 1
class v(k):
    b = 2
print(k.a, v.b, v.a)
