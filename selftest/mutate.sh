#!/bin/sh
# usage: selftest/mutate.sh <patch-file> <PROP> [tier]   -> runs the check against a scratch copy with the patch
# development tooling, not a registered check. Scratch copy lives in /tmp and is removed.
set -e
PATCH="$(realpath "$1")"; PROP="$2"; TIER="${3:-quick}"
HERE="$(cd "$(dirname "$0")/.." && pwd)"
S="$(mktemp -d /tmp/olmut.XXXXXX)"
trap 'rm -rf "$S"' EXIT
rsync -a --exclude .git /repo/ "$S/"
(cd "$S" && patch -p1 -s < "$PATCH")
set +e
OL_REPO="$S" "$HERE/check" "$PROP" "$TIER" > "$S/.out" 2>&1
RC=$?
tail -n 8 "$S/.out"
echo "exit=$RC"
