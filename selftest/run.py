#!/usr/bin/env python3
"""Sensitivity suite (development tooling, not a registered check).

selftest/mutants.json lists small source edits that break one property each while the
repository's own suite stays green. For every mutant: copy /repo to a scratch directory
outside /repo and /verif, apply the edit, (optionally) run the repository's tests there, run
the property's check with OL_REPO=<scratch>, expect exit 1, delete the scratch copy.

usage: selftest/run.py [--tests] [--tier quick] [name-substring ...]
"""
import json, os, shutil, subprocess, sys, tempfile, time

HERE = os.path.dirname(os.path.abspath(__file__))
VERIF = os.path.dirname(HERE)


def main():
    args = [a for a in sys.argv[1:] if not a.startswith("--")]
    run_tests = "--tests" in sys.argv
    tier = "quick"
    if "--tier" in sys.argv:
        tier = sys.argv[sys.argv.index("--tier") + 1]
        args = [a for a in args if a != tier]
    muts = json.load(open(os.path.join(HERE, "mutants.json")))
    rows = []
    for m in muts:
        if args and not any(a in m["name"] for a in args):
            continue
        scratch = tempfile.mkdtemp(prefix="olmut.", dir="/tmp")
        try:
            subprocess.check_call(["rsync", "-a", "--exclude", ".git", "/repo/", scratch + "/"])
            for ed in m["edits"]:
                p = os.path.join(scratch, ed["file"])
                s = open(p).read()
                if s.count(ed["old"]) != 1:
                    rows.append((m["name"], "EDIT-DOES-NOT-APPLY (%d matches)" % s.count(ed["old"])))
                    break
                open(p, "w").write(s.replace(ed["old"], ed["new"]))
            else:
                tests = ""
                if run_tests:
                    r = subprocess.run(["/venv/bin/python", "-m", "pytest", "-q", "-x", "-p", "no:cacheprovider", "oneliner_tests"],
                                       cwd=scratch, capture_output=True, text=True,
                                       env={k: v for k, v in os.environ.items() if k != "PYTHONPATH"})
                    tests = "tests:" + ("pass" if r.returncode == 0 else "FAIL") + " "
                for prop in m["props"]:
                    t0 = time.time()
                    env = dict(os.environ, OL_REPO=scratch, OLVERIF_OUT=os.path.join(scratch, ".verif-out"))
                    r = subprocess.run([os.path.join(VERIF, "check"), prop, tier], capture_output=True, text=True, env=env, cwd=VERIF)
                    verdict = {0: "MISSED", 1: "caught", 2: "HARNESS-ERROR"}.get(r.returncode, "rc=%d" % r.returncode)
                    rows.append((m["name"], "%s%s %s (%.0fs)" % (tests, prop, verdict, time.time() - t0)))
                    if r.returncode != 1:
                        print(r.stdout[-1500:], r.stderr[-1500:])
        finally:
            shutil.rmtree(scratch, ignore_errors=True)
    for name, res in rows:
        print("%-45s %s" % (name, res))
    # the unchanged tree's evidence was overwritten by mutant runs: say so
    print("note: evidence/*.json now describe mutant runs; re-run the checks on /repo before committing evidence")


if __name__ == "__main__":
    main()
