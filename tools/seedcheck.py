#!/usr/bin/env python3
"""Confirm a seeded change and run checks against it (development tooling).
usage: tools/seedcheck.py <patch.diff> <demo.py> PROP [PROP...] [--tier quick] [--skip-confirm]
 1. scratch copy of /repo outside /repo and /verif, patch applied there (never in /repo)
 2. repository suite on the patched copy must be green; demo must exit 1 there and 0 on /repo
 3. each named check is run with OL_REPO=<scratch>; verdict caught/MISSED
The scratch copy is removed at the end."""
import os, shutil, subprocess, sys, tempfile, time

VERIF = os.path.dirname(os.path.dirname(os.path.abspath(__file__)))


def main():
    a = [x for x in sys.argv[1:] if not x.startswith("--")]
    tier = "quick"
    if "--tier" in sys.argv:
        tier = sys.argv[sys.argv.index("--tier") + 1]
        a.remove(tier)
    patch, demo, props = os.path.abspath(a[0]), os.path.abspath(a[1]), a[2:]
    scratch = tempfile.mkdtemp(prefix="olseed.", dir="/tmp")
    res = {}
    try:
        subprocess.check_call(["rsync", "-a", "--exclude", ".git", "/repo/", scratch + "/"])
        r = subprocess.run(["patch", "-p1", "-s", "--no-backup-if-mismatch", "-i", patch], cwd=scratch, capture_output=True, text=True)
        if r.returncode != 0:
            print("PATCH DOES NOT APPLY:", r.stdout[-300:], r.stderr[-300:])
            return 3
        envc = {k: v for k, v in os.environ.items() if k not in ("PYTHONPATH", "OL_REPO")}
        if "--skip-confirm" not in sys.argv:
            t = subprocess.run(["/venv/bin/python", "-m", "pytest", "-q", "-x", "-p", "no:cacheprovider", "oneliner_tests"],
                               cwd=scratch, capture_output=True, text=True, env=dict(envc, PYTHONPATH=scratch))
            res["suite"] = "green" if t.returncode == 0 else "RED: " + t.stdout[-200:]
            d1 = subprocess.run(["/venv/bin/python", demo], cwd=scratch, capture_output=True, text=True, env=dict(envc, OL_REPO=scratch, PYTHONPATH=scratch))
            d0 = subprocess.run(["/venv/bin/python", demo], cwd="/repo", capture_output=True, text=True, env=dict(envc, OL_REPO="/repo", PYTHONPATH="/repo"))
            res["demo_on_mutant"] = d1.returncode
            res["demo_on_clean"] = d0.returncode
        for p in props:
            t0 = time.time()
            r = subprocess.run([os.path.join(VERIF, "check"), p, tier], capture_output=True, text=True,
                               env=dict(os.environ, OL_REPO=scratch, OLVERIF_OUT=os.path.join(scratch, ".verif-out")), cwd=VERIF)
            res[p] = {0: "MISSED", 1: "caught", 2: "HARNESS-ERROR"}.get(r.returncode, r.returncode)
            res[p] += " (%.0fs)" % (time.time() - t0)
            if r.returncode == 2:
                print(r.stderr[-800:])
            if r.returncode == 1 and "--show" in sys.argv:
                print("\n".join(r.stdout.splitlines()[:6]))
    finally:
        shutil.rmtree(scratch, ignore_errors=True)
    print(os.path.basename(os.path.dirname(patch)) + "/" + os.path.basename(patch), res)


if __name__ == "__main__":
    sys.exit(main())
