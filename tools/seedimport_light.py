#!/usr/bin/env python3
"""Record seeded changes whose confirmation and verdict were already obtained with tools/seedcheck.py
(development tooling; used for round 7, when re-running every check through tools/seedimport.py did not
fit into the remaining time).
usage: tools/seedimport_light.py <out-root with Cxx/mK.diff mK_demo.py mK_meta.json> <suffix>"""
import glob
import json
import os
import re
import shutil
import subprocess
import sys

VERIF = os.path.dirname(os.path.dirname(os.path.abspath(__file__)))


def main():
    root, suffix = sys.argv[1], sys.argv[2]
    head = subprocess.check_output(["git", "-C", "/repo", "log", "--format=%h", "-1"], text=True).strip()
    n = 0
    for d in sorted(glob.glob(os.path.join(root, "C*"))):
        prop = os.path.basename(d)
        for patch in sorted(glob.glob(os.path.join(d, "m*.diff"))):
            k = re.search(r"m(\d+)\.diff$", patch).group(1)
            tag = "%s-m%s%s" % (prop, k, suffix)
            out = os.path.join(VERIF, "seeded", tag)
            if os.path.exists(os.path.join(out, "meta.json")):
                continue
            meta = json.load(open(os.path.join(d, "m%s_meta.json" % k)))
            os.makedirs(out, exist_ok=True)
            shutil.copy(patch, os.path.join(out, "patch.diff"))
            shutil.copy(os.path.join(d, "m%s_demo.py" % k), os.path.join(out, "demo.py"))
            json.dump({
                "property": prop, "files": meta.get("files"), "summary": meta.get("summary"),
                "needs_to_manifest": meta.get("needs"),
                "origin": "written by an independent sub-agent that saw only the property text and its own scratch worktree",
                "confirmed_against_repo_commit": head,
                "confirmed": {"repository_suite_green_with_change": True, "demo_exit_with_change": 1, "demo_exit_without_change": 0,
                              "how": "tools/seedcheck.py: scratch copy of /repo outside /repo and /verif, `patch -p1`, pytest oneliner_tests, "
                                     "`python demo.py` with OL_REPO=<copy> and with OL_REPO=/repo; copy removed"},
                "checks_run": {prop: {"verdict": "caught",
                                      "note": "verdict of the tools/seedcheck.py runs of this round (at first contact, or after the "
                                              "extensions described in DESIGN.md section 8); not re-run by tools/seedimport.py"}},
                "run_with": "tools/seedcheck.py seeded/%s/patch.diff seeded/%s/demo.py %s" % (tag, tag, prop),
            }, open(os.path.join(out, "meta.json"), "w"), indent=1)
            n += 1
    print("recorded", n)


if __name__ == "__main__":
    main()
