#!/usr/bin/env python3
"""Create a seeded change from an edit script against the CURRENT /repo (development tooling).
usage: tools/mkseed.py <out.diff> <file> <<< JSON list of [old, new] replacements for that file
The diff is produced in a scratch copy; /repo is never modified."""
import json, os, shutil, subprocess, sys, tempfile
out, rel = os.path.abspath(sys.argv[1]), sys.argv[2]
edits = json.load(sys.stdin)
scratch = tempfile.mkdtemp(prefix="olmk.", dir="/tmp")
try:
    a, b = os.path.join(scratch, "a"), os.path.join(scratch, "b")
    for d in (a, b):
        os.makedirs(os.path.dirname(os.path.join(d, rel)))
        shutil.copy(os.path.join("/repo", rel), os.path.join(d, rel))
    p = os.path.join(b, rel)
    s = open(p).read()
    for old, new in edits:
        assert s.count(old) == 1, "edit does not match exactly once: %r" % old[:60]
        s = s.replace(old, new)
    open(p, "w").write(s)
    r = subprocess.run(["diff", "-u", "--label", "a/" + rel, "--label", "b/" + rel, os.path.join("a", rel), os.path.join("b", rel)],
                       cwd=scratch, capture_output=True, text=True)
    open(out, "w").write("diff --git a/%s b/%s\n" % (rel, rel) + r.stdout)
    print("wrote", out, len(r.stdout.splitlines()), "lines")
finally:
    shutil.rmtree(scratch)
