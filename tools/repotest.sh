#!/bin/sh
# runs the repository's own suite on /repo's working tree (guard off: there are no hooks)
cd /repo && env -u ONELINER_PY_VERIF /venv/bin/python -m pytest -q -p no:cacheprovider -x oneliner_tests 2>&1 | tail -n 3
