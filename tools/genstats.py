#!/venv/bin/python
"""development helper: validity rate and feature histogram of G-PROG; optional oracle run
usage: tools/genstats.py N [--oracle] [--seed S]"""
import sys, os, collections
sys.path.insert(0, os.path.dirname(os.path.dirname(os.path.abspath(__file__))))
from olverif import env, hyp, oracle
from olverif.gen import prog
from olverif.kit import run_code
n = int(sys.argv[1]); do_oracle = "--oracle" in sys.argv
seed = int(sys.argv[sys.argv.index("--seed")+1]) if "--seed" in sys.argv else 1
env.oneliner()
st = collections.Counter(); tags = collections.Counter(); errs = {}; fails = []
def body(p):
    st["gen"] += 1
    try:
        compile(p.source, "<p>", "exec")
    except SyntaxError as e:
        st["syntax"] += 1; errs.setdefault("syntax:" + str(e)[:50], p.source); return None
    o = run_code(p.source, "exec")
    if not o["ok"]:
        st["orig-raises"] += 1; errs.setdefault(o["err"] + ":" + o["errmsg"][:50], p.source); return None
    st["valid"] += 1; tags.update(p.tags)
    if prog.nontrivial(p): st["nontrivial"] += 1
    if do_oracle:
        status, failures, _ = oracle.check_program(p.source, orig=o, stop_at_first=True)
        if status == "fail":
            st["FAIL"] += 1; fails.append((p.source, failures[0]))
    return None
hyp.search(prog.program_strategy(), body, seed, n)
print(dict(st)); print(dict(tags.most_common()))
for k, v in errs.items():
    print("=====", k); print(v)
fails.sort(key=lambda f: len(f[0]))
seen = collections.Counter()
for src, (cfg, diffs, text) in fails:
    key = diffs[0][:60]; seen[key] += 1
    if seen[key] <= 2:
        print("=====FAIL", cfg, diffs[0][:300]); print(src)
print(seen)
