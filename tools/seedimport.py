#!/usr/bin/env python3
"""Import confirmed seeded changes into /verif/seeded/<id>/ (development tooling).
usage: tools/seedimport.py <src-dir-with mK.diff mK_demo.py mK_meta.json> <PROP> [extra PROP ...]
For every mutant in the directory: apply to a scratch copy of /repo (never to /repo), confirm
(suite green, demo exits 1 on the mutant and 0 on /repo), run the property's quick check (and the
extra ones) against the scratch copy, and write patch.diff / demo.py / meta.json."""
import glob, json, os, re, shutil, subprocess, sys, tempfile, time

VERIF = os.path.dirname(os.path.dirname(os.path.abspath(__file__)))


def run_one(patch, demo, props):
    scratch = tempfile.mkdtemp(prefix="olseed.", dir="/tmp")
    res = {"applies": True}
    try:
        subprocess.check_call(["rsync", "-a", "--exclude", ".git", "/repo/", scratch + "/"])
        r = subprocess.run(["patch", "-p1", "-s", "--no-backup-if-mismatch", "-F0", "-i", patch], cwd=scratch, capture_output=True, text=True)
        if r.returncode != 0:
            return {"applies": False}
        envc = {k: v for k, v in os.environ.items() if k not in ("PYTHONPATH", "OL_REPO")}
        t = subprocess.run(["/venv/bin/python", "-m", "pytest", "-q", "-x", "-p", "no:cacheprovider", "oneliner_tests"],
                           cwd=scratch, capture_output=True, text=True, env=dict(envc, PYTHONPATH=scratch))
        res["suite_green_with_change"] = t.returncode == 0
        d1 = subprocess.run(["/venv/bin/python", demo], cwd=scratch, capture_output=True, text=True, env=dict(envc, OL_REPO=scratch, PYTHONPATH=scratch))
        d0 = subprocess.run(["/venv/bin/python", demo], cwd="/repo", capture_output=True, text=True, env=dict(envc, OL_REPO="/repo", PYTHONPATH="/repo"))
        res["demo_exit_with_change"] = d1.returncode
        res["demo_exit_without_change"] = d0.returncode
        res["checks"] = {}
        for p in props:
            t0 = time.time()
            r = subprocess.run([os.path.join(VERIF, "check"), p, "quick"], capture_output=True, text=True,
                               env=dict(os.environ, OL_REPO=scratch, OLVERIF_OUT=os.path.join(scratch, ".verif-out")), cwd=VERIF)
            res["checks"][p] = {"verdict": {0: "missed", 1: "caught", 2: "harness-error"}.get(r.returncode, str(r.returncode)),
                                "seconds": round(time.time() - t0)}
    finally:
        shutil.rmtree(scratch, ignore_errors=True)
    return res


def main():
    src, props = sys.argv[1], sys.argv[2:]
    prop = props[0]
    head = subprocess.check_output(["git", "-C", "/repo", "log", "--format=%h", "-1"], text=True).strip()
    for patch in sorted(glob.glob(os.path.join(src, "m*.diff"))):
        k = re.search(r"m(\d+)\.diff$", patch).group(1)
        demo = os.path.join(src, "m%s_demo.py" % k)
        metaf = os.path.join(src, "m%s_meta.json" % k)
        meta = json.load(open(metaf)) if os.path.exists(metaf) else {}
        res = run_one(patch, demo, props)
        tag = "%s-m%s%s" % (prop, k, os.environ.get("SEED_SUFFIX", ""))
        if not res.get("applies"):
            print(tag, "does not apply to the current /repo: skipped")
            continue
        ok = res["suite_green_with_change"] and res["demo_exit_with_change"] == 1 and res["demo_exit_without_change"] == 0
        if not ok:
            print(tag, "NOT CONFIRMED (suite/demo):", res)
            continue
        out = os.path.join(VERIF, "seeded", tag)
        os.makedirs(out, exist_ok=True)
        shutil.copy(patch, os.path.join(out, "patch.diff"))
        shutil.copy(demo, os.path.join(out, "demo.py"))
        json.dump({
            "property": prop,
            "files": meta.get("files"),
            "summary": meta.get("summary"),
            "needs_to_manifest": meta.get("needs"),
            "origin": "written by an independent sub-agent that saw only the property text and its own scratch worktree",
            "confirmed_against_repo_commit": head,
            "confirmed": {"repository_suite_green_with_change": True, "demo_exit_with_change": 1, "demo_exit_without_change": 0,
                          "how": "scratch copy of /repo outside /repo and /verif, `patch -p1`, pytest oneliner_tests, `python demo.py` with OL_REPO=<copy> and with OL_REPO=/repo; copy removed"},
            "checks_run": res["checks"],
            "run_with": "tools/seedcheck.py seeded/%s/patch.diff seeded/%s/demo.py %s" % (tag, tag, " ".join(props)),
        }, open(os.path.join(out, "meta.json"), "w"), indent=1)
        print(tag, {p: v["verdict"] for p, v in res["checks"].items()})


if __name__ == "__main__":
    main()
