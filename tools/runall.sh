#!/bin/sh
# runs every registered quick (or $1=thorough) check on /repo; prints id, exit status, seconds
TIER="${1:-quick}"
cd "$(dirname "$0")/.."
for p in C01 C02 C03 C04 C05 C06 C07 C08 C09 C10 C11 C12 C13 C14 C15 C16 C17; do
  s=$(date +%s)
  ./check $p $TIER > /tmp/runall.$p.out 2>&1; rc=$?
  e=$(date +%s)
  echo "$p rc=$rc $((e-s))s $(grep -c '^VIOLATION' /tmp/runall.$p.out) violations; $(grep -c '^KNOWN-FINDING' /tmp/runall.$p.out) known"
done
