#!/bin/sh
# MANIFEST.setup_cmd: offline; makes sure Hypothesis is importable by the check interpreter.
HERE="$(cd "$(dirname "$0")/.." && pwd)"
PY="${OLVERIF_PYTHON:-/venv/bin/python}"
if "$PY" -c 'import hypothesis' 2>/dev/null; then
    echo "hypothesis present in $PY"
else
    "$PY" -m pip install -q --no-index --find-links /opt/veriftools/wheels --target "$HERE/.deps" hypothesis || exit 1
    echo "hypothesis installed into $HERE/.deps"
fi
# optional: atheris for the coverage-guided stage of C03 (thorough tier); the checks work without it
if ! PYTHONPATH="$HERE/.deps" "$PY" -c 'import atheris' 2>/dev/null; then
    "$PY" -m pip install -q --no-index --find-links /opt/veriftools/wheels --target "$HERE/.deps" atheris >/dev/null 2>&1 \
        && echo "atheris installed into $HERE/.deps" || echo "atheris not installable here (optional stage will be skipped)"
fi
mkdir -p "$HERE/evidence" "$HERE/replays"
exit 0
