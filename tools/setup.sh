#!/bin/sh
# MANIFEST.setup_cmd: offline; makes sure Hypothesis is importable by the check interpreter.
HERE="$(cd "$(dirname "$0")/.." && pwd)"
PY="${OLVERIF_PYTHON:-/venv/bin/python}"
if "$PY" -c 'import hypothesis' 2>/dev/null; then
    echo "hypothesis present in $PY"
else
    "$PY" -m pip install -q --no-index --find-links /opt/veriftools/wheels --target "$HERE/.deps" hypothesis || exit 1
    echo "hypothesis installed into $HERE/.deps"
fi
mkdir -p "$HERE/evidence" "$HERE/replays"
exit 0
