#!/venv/bin/python
"""development helper: run a source file (or -c 'src') through the whole-program oracle under all 8 configs"""
import sys, os
sys.path.insert(0, os.path.dirname(os.path.dirname(os.path.abspath(__file__))))
from olverif import env, oracle
src = sys.argv[2] if sys.argv[1] == "-c" else open(sys.argv[1]).read()
env.oneliner()
status, failures, orig = oracle.check_program(src, stop_at_first=False)
print("status:", status, "| orig err:", orig["err"], orig["errmsg"])
if "-v" in sys.argv:
    print(env.convert(src, env.DEFAULT_CFG))
for cfg, diffs, text in failures:
    print(env.cfg_name(cfg)); [print("   ", d) for d in diffs]
