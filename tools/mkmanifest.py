#!/usr/bin/env python3
"""Regenerates /verif/MANIFEST.json from the table below (so it is always schema-valid).
usage: python3 tools/mkmanifest.py   (validates with jsonschema when importable)"""
import json
import os
import sys

HERE = os.path.dirname(os.path.dirname(os.path.abspath(__file__)))

PBT = "property-based testing"
CHECKS = {
    # id: (technique, level text, level note, design ref)
    "C05": (
        "exhaustive enumeration of control-flow skeletons + Hypothesis-drawn larger ones; "
        "trace-equality oracle against CPython under generated branch schedules",
        "Every control-flow skeleton up to a size bound (n<=4 quick, n<=5 in six placements and "
        "n=6 in two, thorough) is converted under the 4 semantic configurations and executed "
        "under 6 branch-outcome schedules; larger skeletons are drawn by Hypothesis under all 8 "
        "configurations. The complete probe trace (markers, condition outcomes, iter/next "
        "calls, return probes, function results) must equal CPython's. Exhaustive within the "
        "bound, sampled beyond it; no absence claim outside. For-loop iterables come in five forms "
        "(plain, walrus, nested walrus, iterator object, getitem-only sequence); the falsy-body family "
        "(28 values x 21 one/two-statement branch bodies x 6 shapes x 8 configurations) is complete.",
        "Trusts CPython as reference semantics and the probe kit's determinism. Loop bodies "
        "do not read the loop variable here (that is C01/C06).",
        "DESIGN.md section 3, C05"),
    "C06": (
        "enumeration of scope trees x binding-role catalogue (smallest first) + Hypothesis-drawn deeper "
        "trees with two tracked names; oracle: value log of fresh integers and final globals vs CPython",
        "Scope trees (module, function, class, lambda, comprehension) in which every scope takes one role "
        "for a tracked name (assign, augmented, walrus, parameter kinds, loop/comprehension target, "
        "def/class/import binding, global/nonlocal + assign/read/augmented, captured-and-rebound ...) are "
        "rendered so that every write uses a fresh integer and every scope logs the value it sees; all "
        "trees with one inner scope, a seeded fraction (quick) / all (thorough) of the trees with two, "
        "sampled chains of three and Hypothesis trees to depth 4 are run; log and globals must equal "
        "CPython's. Illegal programs are dropped by compile(), raising originals are counted. Further "
        "families: pairs of single-name chains rendered into the SAME scopes (two captured-variable owners "
        "on one chain), the small families once more with 12 distinguishable FALSY values, class towers; "
        "host dimension incl. functions renamed onto CPython's implicit scope names.",
        "Roles are one per scope per name (two in the two-name family). Shapes on which CPython 3.12/3.13 "
        "itself misbehaves (comprehension-inlining bug) are filtered structurally.",
        "DESIGN.md section 3, C06"),
    "C09": (
        "complete sweep of the identifier x role x feature matrix + metamorphic alpha-renaming of "
        "Hypothesis-drawn programs + fresh-suffix / single-binding-site invariants on every output",
        "Every cell of 37 risky identifiers x 8 roles x 28 helper-introducing features is a small program "
        "that binds the identifier in that role, uses the feature and prints the identifier before and "
        "after; converted under both wrappers it must behave like the original. Generated programs are "
        "additionally converted after a consistent renaming of their identifiers onto the risky set. On "
        "every conversion the suffixes handed out must be pairwise distinct, every __ol_ name must carry "
        "one, and single-purpose temporaries must be bound at one site only. A fourth stage plugs two "
        "different or the SAME identifier into 24 programs with two distinct entities (nested, redefined, "
        "sibling functions and classes, function and parameter, decorated definitions, loop targets).",
        "One open finding (builtins called by plain name) is excluded by a static feature->builtin table.",
        "DESIGN.md section 3, C09"),
    "C14": (
        "complete enumeration of import statement forms x placement x 8 configurations over a vendored, "
        "self-logging package tree; oracle: import log, identity class of bound objects, sys.modules delta",
        "47 statement forms (plain, dotted to depth 4, aliased, multi-module, from-imports of attributes and "
        "of not-yet-imported submodules, relative level 1 and 2, interleaved/repeated, future statements) in "
        "15 placements (module, function, class body, global-declared, captured by a nested function or class, "
        "function in function, method, class in function, if/else branch, loop bodies) run with "
        "sys.modules reset; which modules were imported in which order, what each name is bound to, the "
        "new sys.modules keys and the final globals must equal CPython's.",
        "Relative forms run with __name__/__package__ set inside the vendored package.",
        "DESIGN.md section 3, C14"),
    "C15": (
        "Hypothesis-generated 3.8-valid programs + pool/repository scripts, converted by worker processes "
        "under every host interpreter (3.10-3.13) and evaluated under every runtime (3.8-3.13); "
        "differential oracle per runtime: stdout of the output == stdout of the source there",
        "Persistent worker processes (stdlib-only, 3.8 syntax, JSON lines over pipes) convert each "
        "program under 4 hosts x 8 configurations; every distinct output text is evaluated on 6 "
        "runtimes and must print what the source prints on that runtime. The generator includes the "
        "version-sensitive forms (walrus as index / set element, starred tuple index, positional-only "
        "parameters, f-string conversions/specs, lambda defaults); a depth family (nested def/class/if/mixed "
        "blocks x depths) and long-chain programs cover size x runtime. Interpreters are discovered at run "
        "time; the check exits 2 (cannot decide) with fewer than two runtimes.",
        "3.14 is not in the image. Stdout and the probe trace are compared per runtime. Two open findings: ast.unparse "
        "writes host-version syntax (excluded per (host, unparser) cell by structural predicates on the "
        "source); deep def/class nesting overflows the 3.8 parser stack (runtime 3.8 left out above depth 16).",
        "DESIGN.md section 3, C15"),
    "C07": (
        "complete sweep of probe-instrumented statement templates x 3 placements x 8 configurations + "
        "Hypothesis-drawn target patterns with a probe at every leaf; oracle: equality of the ordered "
        "probe/access log with CPython's",
        "About 140 statement templates in which every subexpression is a logging probe and every "
        "object/container logs attribute and item access (all assignment target shapes incl. chained "
        "and starred, slices with every subset of bounds, 13 augmented operators on attribute / "
        "subscript / name targets, def/class headers with decorators, defaults, bases, keywords and "
        "metaclass, loop and if headers, calls, comparisons, comprehensions, f-strings) are run in "
        "module, function and class placement under all 8 configurations; the complete event log "
        "must equal CPython's. Further target patterns are drawn by Hypothesis.",
        "Evaluation order inside an expression is inherited from Python unless the transformer "
        "restructures it; covered by expression templates only.",
        "DESIGN.md section 3, C07"),
    "C13": (
        "exhaustive enumeration of destructuring patterns x source lengths x source kinds and of the "
        "operator x target x operand-kind x placement matrix of augmented assignment, + Hypothesis-"
        "drawn deeper patterns; oracle: logged canonical value of every target and alias, store log",
        "All depth-1/2 target patterns (leaves name/attribute/subscript/slice, star anywhere) x every "
        "admissible source length and kind (list, tuple, str, range, generator, dict view, one-shot "
        "iterator), and the complete 13 operators x 4 targets x 24 operand kinds x 5 placements matrix "
        "(aliases taken before the statement so in-place vs rebinding is observable) are converted "
        "and executed; values of all targets/aliases, the stores seen by logging objects and final "
        "globals must equal CPython's. Cells whose original raises are outside the domain.",
        "One open finding (in-place dunder called directly: NotImplemented / reflected fallback) is "
        "excluded by operand kind.",
        "DESIGN.md section 3, C13"),
    "C03": (
        "exhaustive slot x child composition to depth 3 + Hypothesis deep trees + stdlib corpus + "
        "converter-emitted trees; parser round-trip oracle (and ast.unparse differential)",
        "Every (slot, child) and (slot, slot, child) composition over a catalogue of ~150 slots "
        "and ~165 child kinds (3.6 million trees) is unparsed with expr_unparse and parsed back; "
        "the tree must be identical. Deeper trees are drawn by Hypothesis, every expression of "
        "the standard-library sources is swept, and trees emitted by the converter are checked "
        "with the round trip and against ast.unparse. Exhaustive for the composition family, "
        "sampled beyond. Host dimension: every depth-2 and a seeded sample of depth-3 compositions "
        "round-tripped by the unparser running under 3.10, 3.11 and 3.13 (worker processes).",
        "Trusts the host parser (3.12) and ast.dump-style field equality modulo ctx/kind/positions. "
        "Depth >= 4 is sampled only.",
        "DESIGN.md section 3, C03"),
    "C04": (
        "enumeration of code points / short strings / f-string shapes x positions, Hypothesis "
        "text, binary, ints and floats, stdlib literal corpus; parser round-trip oracle with "
        "exact constant comparison and a no-line-break check",
        "Literals are generated from an explicit shape grammar (code points 0..0x2FF, line-break "
        "characters, surrogates, plane samples; all strings <= 4 over the quote/backslash/brace "
        "alphabet; up to 14 syntactic positions incl. nested f-strings and format specs; bytes; "
        "numbers incl. overflow, imaginary, > 4300-digit ints; conversion x spec x value x nesting "
        "f-string shapes) plus Hypothesis text and all stdlib literals. The unparsed text must be "
        "one physical line and parse back to the identical constants and f-string structure. Host "
        "dimension: the f-string shapes and the positions of a seeded sample of the strings under "
        "3.10, 3.11 and 3.13.",
        "Trusts the host parser (3.12, PEP 701) for building input trees; values compared by type and repr.",
        "DESIGN.md section 3, C04"),
    "C01": (
        "Hypothesis-generated whole programs (typed scope-aware generator) x 8 configurations; "
        "differential oracle: CPython executing the source vs eval of the converted expression "
        "(stdout, canonical user globals, helper-name allowance)",
        "Programs over the whole supported fragment are drawn by a typed generator that constructs "
        "exception-free, terminating originals; each is converted under all 8 option combinations "
        "and evaluated in a fresh namespace; stdout and every user global must agree and only "
        "__ol_*/itertools/importlib may be added. Failures are shrunk by Hypothesis and a "
        "statement-level delta debugger. The pool (incl. 14 dense hand-written 'zoo' programs) and the "
        "repository's scripts run as well, and so do the quick case sets of the C05/C06/C07/C13 engines "
        "(whole programs decided by this same oracle) under a derived seed, and the G-NEST sweep of "
        "construct interactions (every construct inside / next to every other, about 17 000 programs). "
        "Sampled, not exhaustive.",
        "Trusts CPython as reference and the canonical-value comparison; functions compare as "
        "'callable' (observed through calls). Host 3.12 only in the quick tier.",
        "DESIGN.md section 3, C01"),
    "C02": (
        "Hypothesis-generated programs (+ injected out-of-fragment variants) and the stripped "
        "standard-library corpus x 8 configurations; validity predicate on the output "
        "(no line break, compiles in eval mode, parses as exactly one expression)",
        "Whenever convert_code_string returns, the text is checked to be a single-line, compilable "
        "expression; inputs come from the whole-program generator, from the same programs with "
        "unsupported / illegally placed constructs injected at random positions (inputs the "
        "converter may accept or reject), and from ~550 standard-library modules with unsupported "
        "statements stripped; plus the pool, the G-NEST interaction sweep (about 20 000 programs) and the "
        "while-walrus family (refused or well-formed). Rejections are counted, never failures. Nothing is executed.",
        "RecursionError/MemoryError when compiling a huge output is treated as a size limit (C17).",
        "DESIGN.md section 3, C02"),
    "C08": (
        "exhaustive injection of every unsupported / illegally placed construct at every statement "
        "position (and wrapped around expression nodes) of a fixed rich base program and of "
        "Hypothesis-drawn programs; oracle: conversion must raise",
        "For each base program every index of every statement list at every depth receives each of "
        "14 unsupported statement kinds and the illegal break/continue/return placements; expression "
        "nodes are wrapped in yield / yield from / await / async comprehensions; every tuple/list "
        "target receives a second star. convert_code_string must raise for all 8 (fixed base, "
        "thorough) or 2 rotating configurations. Exhaustive per base program; bases are sampled. "
        "Effect-survival stage for the last sentence: 29 inert-looking expression statements with a run-time "
        "effect x 14 placements x 8 configurations must keep their trace and final exception type; the "
        "while-walrus family must be refused or equivalent. Host dimension: injections converted by 3.10/3.11/3.13; "
        "the base converts first (state of accepted conversions).",
        "Any Exception is a rejection; ast.unparse is trusted to print the mutated module (re-parsed).",
        "DESIGN.md section 3, C08"),
    "C10": (
        "Hypothesis rule-based state machine over API histories with a dict model of the option "
        "objects; differential oracle against the same call in a fresh process",
        "Histories of {create options object, set legal/illegal value, convert with object j, "
        "convert with no options, convert a half-way rejected program, reseed random, drop, read "
        "back} are drawn and shrunk by Hypothesis' stateful engine; every conversion result, "
        "normalised by first-occurrence renaming of __ol_ names, must equal the result of the "
        "same call in a fresh interpreter process with the modelled options (8 configurations x "
        "~50 pool programs of references, recomputed on every run). Also: every ordered pair of the "
        "state-sensitive programs in one process, a sweep of random-generator states, and every pool "
        "program converted in fresh processes under other string-hash seeds (same text required).",
        "Assumes two fresh processes differ only in random suffixes (a quarter of the references is computed twice; a difference is a violation). "
        "Histories are bounded (10 / 16 steps).",
        "DESIGN.md section 3, C10"),
    "C11": (
        "exhaustive enumeration of parameter-list shapes x annotation x placement x 8 configurations; "
        "harness-applied call battery on the original and converted function objects + "
        "inspect.signature comparison; whole-program templates for decorators/returns/defaults",
        "All 757 parameter-list shapes (0-2 positional-only, 0-2 positional-or-keyword, every number of "
        "trailing defaults, *args / bare *, 0-2 keyword-only with/without default, **kwargs), plain "
        "and annotated, are defined at module level, inside a function (default names captured and "
        "later rebound) and in a class body (default names are class members), converted under all "
        "8 configurations, and both function objects are called with a battery of ~30-60 call shapes: "
        "equal result tuples or TypeError on both sides; inspect.signature modulo annotations equal.",
        "TypeError compared by type only. Decorator order, return forms and default evaluation time are "
        "covered by ten whole-program templates (and by C07).",
        "DESIGN.md section 3, C11"),
    "C12": (
        "enumeration of the class-skeleton product (bases x metaclass x keywords x decorators x member "
        "sets x 6 placements) + Hypothesis-drawn larger member sets; harness inspection of the class "
        "object (MRO, metaclass, canonical attributes, call script on instance/class/subclass)",
        "Class statements over 6 base shapes, implicit/explicit metaclass, keywords consumed by "
        "__init_subclass__, 0-2 decorators incl. one returning a different object, every member set of "
        "size <= 2 from 29 member kinds, placed at module level, in a function, in a class, in a class "
        "in a function, global-declared in a function and captured by a closure; the harness compares "
        "MRO, bases, metaclass, user attributes, where the name is bound and the results of a fixed "
        "call script against the class CPython builds; also after an earlier class statement of the same "
        "name in the same scope and as one alternative of an if/else. Quick: half of the size-<=1 sets + every 20th "
        "size-2 set; thorough: all size-<=1 sets and every third size-2 set (the complete product takes well over an "
        "hour). Host dimension: a stride of the product and every member kind as whole programs.",
        "Class-creation hooks that look at the namespace and class metadata are outside the property.",
        "DESIGN.md section 3, C12"),
    "C16": (
        "Hypothesis-generated argv / file / output-mode cases plus a fixed invalid-option matrix, "
        "each one real `python -m oneliner` process; model of -C parsing; API differential + "
        "evaluation oracle; output-path-untouched oracle for invalid lists",
        "Every case runs the real command line on a scratch file. Valid option lists (both -C "
        "spellings, repeats, deprecated --unparser, LF/CRLF, non-ASCII) must exit 0 and write "
        "exactly the UTF-8 bytes of the library result under the modelled options (stdout: plus "
        "newline), and the text must print what the script prints. Invalid lists (unknown names "
        "incl. real attribute names, malformed items, illegal values; alone or after valid items) "
        "must exit non-zero leaving the output path absent / byte-identical. Every pool program goes "
        "through every option combination; the command line of each other host interpreter (3.10, 3.11, "
        "3.13) is compared with the library call under that same interpreter.",
        "Trusts the in-process library call as the reference (its purity is C10's subject).",
        "DESIGN.md section 3, C16"),
    "C17": (
        "size-parameterised program families on a geometric schedule + Hypothesis-drawn compositions, "
        "each probed in a fresh interpreter process; differential oracle (source compiles/runs there "
        "=> conversion, compilation and evaluation of the output succeed with the same RESULT)",
        "28 families (consecutive statements, defs, elif chains, operator/call/attribute/subscript "
        "chains, displays, f-string fields, block/def/lambda/comprehension nesting) are probed at "
        "N = 10..1000 (quick) / ..10000 (thorough) and nesting 5..95 under unparser x wrapper "
        "(x if-style where the if lowering nests), one fresh process per cell with the default "
        "recursion limit; a family stops at the first size CPython refuses for the source itself. "
        "94 families by now (a left chain of every operator, chains in every expression position, "
        "towers); dense sweep of EVERY block length 1..560 (thorough 1..1000).",
        "Thresholds depend on the interpreter build; sizes are compared at schedule points only. "
        "Two open findings (stdlib recursive unparser, chain_call depth) are excluded structurally.",
        "DESIGN.md section 3, C17"),
}

NOT_YET = "check not built yet in this round; planned engine described in DESIGN.md section 3"


def main():
    props = [json.loads(l) for l in open(os.path.join(HERE, "properties.jsonl"))]
    checks, na = [], []
    for p in props:
        pid = p["id"]
        if pid in CHECKS:
            tech, text, note, ref = CHECKS[pid]
            checks.append({
                "property_id": pid,
                "quick_cmd": "./check %s quick" % pid,
                "thorough_cmd": "./check %s thorough" % pid,
                "evidence_file": "evidence/%s.json" % pid,
                "replay_cmd_template": "./check %s --replay {path}" % pid,
                "engine": "olverif",
                "level_claimed": {"category": "exploration", "text": text, "design_ref": ref},
                "level_note": note,
                "technique": tech,
            })
        else:
            na.append({"property_id": pid, "reason": NOT_YET})
    m = {
        "version": 1,
        "setup_cmd": "sh tools/setup.sh",
        "hooks": {
            "guard": "ONELINER_PY_VERIF",
            "enable": "no hooks exist: every observation goes through the public API, process "
                      "boundaries or probe functions called by generated programs; the checks "
                      "import oneliner straight from /repo's working tree (pure Python, no build)",
            "baseline_off_cmd": "cd /repo && /venv/bin/python -m pytest -q -p no:cacheprovider oneliner_tests",
            "source_commits": [],
            "add_only": True,
        },
        "engines": [{
            "name": "olverif",
            "path": "olverif/",
            "serves_properties": [c["property_id"] for c in checks],
            "kind_free_text": "property-based testing / generated-input search: Hypothesis strategies, "
                              "exhaustive enumerators of finite families and corpus sweeps, each "
                              "against an explicit oracle (CPython execution, parser round trip, "
                              "option model, fresh-process reference)",
        }],
        "checks": checks,
        "not_applicable": na,
        "notes": "Entry point ./check <ID> <quick|thorough> [--replay FILE]; VERIF_SEED selects the "
                 "seed; exit 0/1/2 = held / violation / harness trouble. Known findings: "
                 "known_findings.json (never written at run time).",
    }
    path = os.path.join(HERE, "MANIFEST.json")
    with open(path, "w") as f:
        json.dump(m, f, indent=1)
        f.write("\n")
    try:
        import jsonschema
        schema = json.load(open("/root/.vp/MANIFEST.schema.json"))
        jsonschema.validate(m, schema)
        print("MANIFEST.json valid: %d checks, %d not_applicable" % (len(checks), len(na)))
    except ImportError:
        print("MANIFEST.json written (jsonschema not importable here; not validated)")


if __name__ == "__main__":
    sys.exit(main())
